// C18 (tier 2): controlled schedules at the guarded yield points (LIBERASURECODE_VERIF hooks).
// Worker threads run one at a time; control changes hands only inside the library's yield points
// according to a generated / enumerated schedule. Under ASan: a use-after-free, a NULL table, a
// duplicated descriptor, an unusable fresh instance or a wrong result is a violation; so is a deadlock.
#include "lib.hpp"
#include <pthread.h>
#include <semaphore.h>
using namespace fw;
using namespace lib;

extern "C" void (*liberasurecode_verif_yield)(int point);
enum { VP_LOCK_TRY = 13, VP_BLOCKED = 14, VP_UNLOCK = 15 };

static const int MAXT = 4;
struct Sched {
    int n = 0;
    sem_t sem[MAXT]; sem_t done;
    bool finished[MAXT];
    std::vector<int> schedule; size_t pos = 0;
    int events = 0, switches = 0, blocked_run = 0;
    bool deadlock = false;
    std::vector<int> trace;          // (tid<<8)|point, capped
};
static Sched *g_s = nullptr;
static thread_local int t_tid = -1;

static int next_runnable(Sched &s, int from, int offset) {
    for (int i = 0; i < s.n; i++) { int t = (from + offset + i) % s.n; if (!s.finished[t] && t != from) return t; }
    return -1;
}
static void hand_over(Sched &s, int to) {
    int me = t_tid;
    s.switches++;
    sem_post(&s.sem[to]);
    sem_wait(&s.sem[me]);
}
static void yield_cb(int point) {
    Sched *s = g_s;
    if (!s || t_tid < 0) return;
    s->events++;
    if (s->trace.size() < 4000) s->trace.push_back((t_tid << 8) | point);
    if (point == VP_BLOCKED) {
        if (++s->blocked_run > 20000) { s->deadlock = true; fprintf(stderr, "DEADLOCK: threads only spin on locks\n"); fflush(stderr); abort(); }
        int to = next_runnable(*s, t_tid, 1);
        if (to < 0) { s->deadlock = true; fprintf(stderr, "DEADLOCK: thread %d blocked on a lock that no runnable thread holds\n", t_tid); fflush(stderr); abort(); }
        hand_over(*s, to);
        return;
    }
    s->blocked_run = 0;
    int entry = s->pos < s->schedule.size() ? s->schedule[s->pos] : 0;
    s->pos++;
    if (entry <= 0) return;
    int to = next_runnable(*s, t_tid, entry);
    if (to >= 0) hand_over(*s, to);
}

static Config sshape(int a) {
    Config g;
    static const int bes[] = {ref::B_RS, ref::B_RS, ref::B_XOR, ref::B_NULL};
    g.backend = bes[a % 4];
    if (g.backend == ref::B_XOR) { g.k = 3; g.m = 3; g.hd = 3; }
    else { g.k = 2 + (a / 4) % 3; g.m = 1 + (a / 12) % 2; g.hd = g.m; }
    g.ct = CT_NONE;
    return g;
}
static bool cycle_check(int desc, const Config &g, int b, std::string &err) {
    std::vector<uint8_t> data((size_t)g.k * ref::word_bytes(g) * 2 + (b % 3));
    uint64_t sd = 55 + b;
    for (auto &x : data) x = (uint8_t)splitmix64(sd);
    int mn = liberasurecode_get_minimum_encode_size(desc), al = liberasurecode_get_aligned_data_size(desc, data.size()), fz = liberasurecode_get_fragment_size(desc, (int)data.size());
    int unit = g.k * ref::word_bytes(g);
    if (mn != unit || al != (int)ref::aligned_size(g, data.size()) || fz != al / g.k) { err = "size queries on a live descriptor answer " + std::to_string(mn) + "/" + std::to_string(al) + "/" + std::to_string(fz) + " (expected " + std::to_string(unit) + "/" + std::to_string(ref::aligned_size(g, data.size())) + "/...)"; return false; }
    Stripe s = encode(desc, g, data);
    if (s.rc != 0) { err = "encode failed rc=" + std::to_string(s.rc); return false; }
    auto want = ref::serialize_stripe(g, data.data(), data.size(), liberasurecode_get_version(), false);
    for (int i = 0; i < g.n(); i++) if (s.frags[i] != want[i]) { err = "encode output differs from the sequential reference (fragment " + std::to_string(i) + ")"; return false; }
    if (g.backend == ref::B_NULL) return true;
    int n = g.n(), lost = b % n;
    std::vector<const std::vector<uint8_t> *> frs;
    for (int i = 0; i < n; i++) if (i != lost) frs.push_back(&s.frags[i]);
    FragSet fs; fs.build(frs, {});
    DecodeOut d = decode(desc, fs, s.fraglen, 0);
    if (d.rc != 0 || d.out != data) { err = "decode failed or returned wrong data (rc=" + std::to_string(d.rc) + ")"; return false; }
    return true;
}

enum { S_CYCLE, S_CREATE_HOLD, S_USE_SHARED, S_DESTROY_HELD, S_QUERY_SHARED, S_QUERY_UNKNOWN, S_FAILING_CREATE, S_NOPS };
struct SOp { int op, a, b; };
struct LiveRec { int desc; uint64_t t_create, t_destroy; };
struct SWorker { int tid; std::vector<SOp> ops; std::string err; std::vector<LiveRec> lives; std::vector<std::pair<int, Config>> held; };
struct SharedInst { Config g; int desc; };
static std::vector<SharedInst> *g_shared;
static uint64_t g_clock;       // only one thread runs at a time

// fault injection under the scheduler (C17 x C18): the flat-XOR back end's init is replaced, for the case's duration, by a
// wrapper that fails for the thread that asked for it - after giving the scheduler a chance to run other threads while
// the failing create is in the middle of the front end - and delegates for everybody else
static thread_local bool t_fail_init = false;
static void *(*g_real_xor_init)(void *, void *) = nullptr;
static void *sched_xor_init(void *a, void *h) {
    if (!t_fail_init) return g_real_xor_init(a, h);
    yield_cb(90); yield_cb(91);          // two places at which control may change hands while init "runs"
    return nullptr;
}
static void *sworker(void *p) {
    SWorker &w = *(SWorker *)p;
    Sched &s = *g_s;
    t_tid = w.tid;
    sem_wait(&s.sem[w.tid]);
    for (auto &o : w.ops) {
        if (!w.err.empty()) break;
        switch (o.op) {
        case S_CYCLE: case S_CREATE_HOLD: {
            Config g = sshape(o.a);
            int d = create(g);
            uint64_t tc = ++g_clock;
            if (d <= 0) { w.err = "create failed rc=" + std::to_string(d); break; }
            if (!cycle_check(d, g, o.b, w.err)) { w.err = "fresh instance " + std::to_string(d) + ": " + w.err; break; }
            if (o.op == S_CREATE_HOLD && w.held.size() < 2) { w.held.push_back({d, g}); w.lives.push_back({d, tc, ~0ull}); break; }
            uint64_t td = ++g_clock;
            if (liberasurecode_instance_destroy(d) != 0) { w.err = "destroy failed"; break; }
            w.lives.push_back({d, tc, td});
            break;
        }
        case S_DESTROY_HELD: {
            if (w.held.empty()) break;
            auto h = w.held.back(); w.held.pop_back();
            uint64_t td = ++g_clock;
            if (liberasurecode_instance_destroy(h.first) != 0) { w.err = "destroy of held instance failed"; break; }
            for (auto &l : w.lives) if (l.desc == h.first && l.t_destroy == ~0ull) { l.t_destroy = td; break; }
            break;
        }
        case S_USE_SHARED: {
            if (g_shared->empty()) break;
            SharedInst &sh = (*g_shared)[o.a % g_shared->size()];
            std::string e; if (!cycle_check(sh.desc, sh.g, o.b, e)) w.err = "shared descriptor: " + e;
            break;
        }
        case S_FAILING_CREATE: {
            Config g; g.backend = ref::B_XOR; g.k = 3; g.m = 3; g.hd = 3; g.ct = CT_NONE;
            t_fail_init = true;
            int d = create(g);
            t_fail_init = false;
            if (d > 0) { w.err = "create succeeded although the back end's init failed"; liberasurecode_instance_destroy(d); }
            else if (d == 0) w.err = "failed create returned 0";
            break;
        }
        case S_QUERY_UNKNOWN: {
            // descriptors that no create ever returns (0, negatives) or has returned in this process (top of the range):
            // unknown at every instant, whatever the other threads are in the middle of
            for (int bad : {0, -1, -(1 + o.b), INT32_MAX - 3 - (o.b % 5)}) {
                int a = liberasurecode_get_aligned_data_size(bad, (uint64_t)o.b * 7), f = liberasurecode_get_fragment_size(bad, o.b * 7), m = liberasurecode_get_minimum_encode_size(bad);
                if (a >= 0 || f >= 0 || m >= 0) { w.err = "size query on unknown descriptor " + std::to_string(bad) + " answered (aligned=" + std::to_string(a) + " fragment=" + std::to_string(f) + " minimum=" + std::to_string(m) + ") while another thread was inside the library"; break; }
                char d8[8] = {1, 2, 3, 4, 5, 6, 7, 8}; char **ed = nullptr, **ep = nullptr; uint64_t fl = 0;
                int e = liberasurecode_encode(bad, d8, 8, &ed, &ep, &fl);
                if (e >= 0) { w.err = "encode on unknown descriptor " + std::to_string(bad) + " succeeded"; break; }
            }
            // the other descriptor-less query: an installed back end is available at every instant, whatever state
            // other threads' instances of it are in
            for (unsigned id : {6u, 3u, 0u}) { int av = liberasurecode_backend_available(id); if (av <= 0 && w.err.empty()) w.err = "backend_available(" + std::to_string(id) + ") = " + std::to_string(av) + " for an installed back end while another thread was inside the library"; }
            break;
        }
        case S_QUERY_SHARED: {
            if (g_shared->empty()) break;
            SharedInst &sh = (*g_shared)[o.a % g_shared->size()];
            if (liberasurecode_get_minimum_encode_size(sh.desc) != sh.g.k * ref::word_bytes(sh.g)) w.err = "shared size query wrong";
            break;
        }
        }
    }
    for (auto &h : w.held) { uint64_t td = ++g_clock; if (liberasurecode_instance_destroy(h.first) != 0 && w.err.empty()) w.err = "final destroy failed"; for (auto &l : w.lives) if (l.desc == h.first && l.t_destroy == ~0ull) { l.t_destroy = td; break; } }
    // finish: hand the baton to another unfinished thread or tell main
    s.finished[w.tid] = true;
    int to = -1;
    for (int i = 0; i < s.n; i++) if (!s.finished[i]) { to = i; break; }
    t_tid = -1;
    if (to >= 0) sem_post(&s.sem[to]); else sem_post(&s.done);
    return nullptr;
}

static int g_last_events = 0;
static Result run_sched(const Case &c) {
    Result r;
    int nt = std::min<int>(MAXT, (int)c.get("threads", 2));
    std::vector<int> fl = c.ints("ops"), sh = c.ints("shared");
    std::vector<SharedInst> shared;
    for (int a : sh) { SharedInst s; s.g = sshape(a); s.desc = create(s.g); if (s.desc <= 0) { r.fail("setup create failed"); return r; } shared.push_back(s); }
    g_shared = &shared;
    g_clock = 0;
    Sched s; s.n = nt;
    for (int i = 0; i < nt; i++) { sem_init(&s.sem[i], 0, 0); s.finished[i] = false; }
    sem_init(&s.done, 0, 0);
    for (int64_t x : c.list("schedule")) s.schedule.push_back((int)x);
    std::vector<SWorker> ws(nt);
    for (int t = 0; t < nt; t++) ws[t].tid = t;
    for (size_t i = 0; i + 3 < fl.size() + 0; i += 4) ws[fl[i] % nt].ops.push_back({fl[i + 1] % S_NOPS, fl[i + 2], fl[i + 3]});
    g_s = &s;
    g_real_xor_init = flat_xor_hd_op_stubs.init;
    flat_xor_hd_op_stubs.init = sched_xor_init;
    liberasurecode_verif_yield = yield_cb;
    std::vector<pthread_t> th(nt);
    for (int t = 0; t < nt; t++) pthread_create(&th[t], nullptr, sworker, &ws[t]);
    sem_post(&s.sem[(int)(c.get("first", 0) % nt)]);
    sem_wait(&s.done);
    for (int t = 0; t < nt; t++) pthread_join(th[t], nullptr);
    liberasurecode_verif_yield = nullptr;
    flat_xor_hd_op_stubs.init = g_real_xor_init;
    g_s = nullptr;
    g_last_events = s.events;
    for (auto &w : ws) if (!w.err.empty()) r.fail("thread " + std::to_string(w.tid) + ": " + w.err);
    std::vector<LiveRec> all;
    for (auto &w : ws) all.insert(all.end(), w.lives.begin(), w.lives.end());
    for (size_t i = 0; i < all.size() && r.ok; i++) for (size_t j = i + 1; j < all.size(); j++)
        if (all[i].desc == all[j].desc && all[i].t_create < all[j].t_destroy && all[j].t_create < all[i].t_destroy) { r.fail("descriptor " + std::to_string(all[i].desc) + " issued to two instances live at the same time"); break; }
    for (auto &x : shared) for (auto &l : all) if (l.desc == x.desc) r.fail("a create returned the descriptor of a live shared instance");
    for (auto &x : shared) { std::string e; if (r.ok && !cycle_check(x.desc, x.g, 3, e)) r.fail("shared instance damaged: " + e); liberasurecode_instance_destroy(x.desc); }
    // the registry must be empty again
    for (auto &l : all) if (liberasurecode_get_minimum_encode_size(l.desc) >= 0) { r.fail("descriptor " + std::to_string(l.desc) + " still answers after its destroy"); break; }
    if (s.deadlock) r.fail("deadlock");
    r.cls("threads_" + std::to_string(nt));
    r.cls("switches_" + std::to_string(std::min(s.switches, 9)));
    r.nontrivial = s.switches >= 1 && s.events >= 10;
    for (int i = 0; i < nt; i++) sem_destroy(&s.sem[i]);
    sem_destroy(&s.done);
    return r;
}

// fixed workloads for the exhaustive part
static void base_workload(Case &c, int which) {
    switch (which) {
    case 0: c.set("threads", 2); c.setl("shared", {}); c.setl("ops", {0, S_CYCLE, 0, 1, 1, S_CYCLE, 4, 2}); break;                    // create RS ; use ; destroy  ||  same (first-ever RS)
    case 1: c.set("threads", 2); c.setl("shared", {1}); c.setl("ops", {0, S_CYCLE, 0, 1, 1, S_USE_SHARED, 0, 2, 1, S_QUERY_SHARED, 0, 0}); break;   // create/use/destroy || use shared
    case 2: c.set("threads", 2); c.setl("shared", {}); c.setl("ops", {0, S_CREATE_HOLD, 0, 1, 0, S_DESTROY_HELD, 0, 0, 1, S_CREATE_HOLD, 2, 1, 1, S_CYCLE, 4, 2, 1, S_DESTROY_HELD, 0, 0}); break;
    case 6: c.set("threads", 2); c.setl("shared", {}); c.setl("ops", {0, S_FAILING_CREATE, 0, 0, 0, S_CYCLE, 2, 1, 1, S_CYCLE, 0, 2, 1, S_CYCLE, 2, 3}); break;      // a create whose init fails || create/use/destroy
    case 7: c.set("threads", 2); c.setl("shared", {1}); c.setl("ops", {0, S_FAILING_CREATE, 0, 0, 1, S_CREATE_HOLD, 2, 1, 1, S_USE_SHARED, 0, 2, 1, S_DESTROY_HELD, 0, 0}); break;
    case 4: c.set("threads", 2); c.setl("shared", {}); c.setl("ops", {0, S_CYCLE, 0, 1, 1, S_QUERY_UNKNOWN, 0, 3, 1, S_QUERY_UNKNOWN, 0, 11}); break;        // create/use/destroy || queries on unknown descriptors
    case 5: c.set("threads", 2); c.setl("shared", {1}); c.setl("ops", {0, S_CREATE_HOLD, 2, 1, 0, S_DESTROY_HELD, 0, 0, 1, S_QUERY_UNKNOWN, 0, 5, 1, S_QUERY_UNKNOWN, 0, 2}); break;
    default: c.set("threads", 2); c.setl("shared", {2}); c.setl("ops", {0, S_CYCLE, 3, 1, 0, S_CYCLE, 0, 2, 1, S_CYCLE, 0, 3, 1, S_USE_SHARED, 0, 1}); break;
    }
}
// all schedules with <= 2 preemptions: a switch at event i and at event j (i <= j), both starting threads
static void sweep_sched_range(int wl_from, int wl_to) {
    int shard = (int)opts().shard, ns = (int)opts().nshards; int64_t counter = 0;
    for (int wl = wl_from; wl < wl_to; wl++) {
        Case dry; base_workload(dry, wl); dry.setl("schedule", {}); dry.set("first", 0);
        Result rr = run_sched(dry); (void)rr;
        int E = g_last_events + 8;
        stats().extra["events_workload_" + std::to_string(wl)] = E;
        for (int first = 0; first < 2; first++)
            for (int i = -1; i < E; i++) for (int j = i; j < E; j++) {
                if (i < 0 && j > i) break;            // i=-1: no preemption at all (only j == -1)
                if ((counter++ % ns) != shard) continue;
                Case c; base_workload(c, wl);
                std::vector<int64_t> sch((size_t)std::max(j + 1, 0), 0);
                if (i >= 0) sch[i] = 1;
                if (j >= 0 && j != i) sch[j] = 1;
                c.setl("schedule", sch); c.set("first", first);
                sweep_case(c, run_sched);
            }
    }
    stats().exhaustive = true;
    stats().extra["preemption_bound"] = 2;
}
static void sweep_sched() { sweep_sched_range(0, (int)opts().geti("workloads", opts().tier == "thorough" ? 4 : 2)); sweep_sched_range(4, opts().tier == "thorough" ? 6 : 5); }
static void sweep_sched_c08() { sweep_sched_range(4, 6); sweep_sched_range(0, 1); sweep_sched_range(2, 3); }      // + two threads creating, querying, using and destroying their own instances
static Case gen_sched() {
    Case c;
    int nt = coin(2, 3) ? 2 : 3;
    c.set("threads", nt);
    int nshared = weighted({3, 2, 1});
    std::vector<int> sh; for (int i = 0; i < nshared; i++) sh.push_back((int)pick(0, 23));
    c.setv("shared", sh);
    std::vector<int> ops;
    int per = (int)pick(1, 4);
    for (int t = 0; t < nt; t++) for (int j = 0; j < per; j++) { ops.push_back(t); ops.push_back(nshared ? weighted({5, 3, 3, 2, 1, 2, 1}) : weighted({5, 3, 0, 2, 0, 2, 1})); ops.push_back(coin(2, 3) ? (int)pick(0, 1) * 4 : (int)pick(0, 23)); ops.push_back((int)pick(0, 50)); }
    c.setv("ops", ops);
    // PCT-like: mostly "stay", a few switch points at random depths
    int len = (int)pick(10, 400);
    std::vector<int> sch(len, 0);
    int nsw = weighted({1, 3, 3, 2, 2, 1});
    if (coin(1, 5)) nsw = (int)pick(5, 40);
    for (int i = 0; i < nsw; i++) sch[pick(0, len - 1)] = (int)pick(1, nt - 1);
    c.setv("schedule", sch);
    c.set("first", pick(0, nt - 1));
    return c;
}

int main(int argc, char **argv) {
    Harness h;
    h.prop = "C18";
    h.mode("c18_sched_exhaustive", sweep_sched, run_sched);
    h.mode("c08_sched", sweep_sched_c08, run_sched);
    h.mode("c17_sched", [] { sweep_sched_range(6, 8); }, run_sched);          // failing back-end init while another thread creates and uses instances
    h.mode("c14_sched", [] { sweep_sched_range(1, 4); }, run_sched);        // one thread's create/use/destroy against another's use of ITS instance (shared or own)
    h.mode("c18_sched", [] { rc_property("C18 controlled schedules", gen_sched, run_sched); }, run_sched);
    return harness_main(argc, argv, h);
}
