// C14 (descriptor registry + isolation), C15 (purity under guard pages), C16 (no leak / UAF / double free)
// One history interpreter; the mode selects which invariants run.
#include "lib.hpp"
#include <climits>
#include <pthread.h>
using namespace fw;
using namespace lib;

enum { OP_CREATE, OP_CREATE_FAIL, OP_DESTROY, OP_DESTROY_DEAD, OP_USE, OP_PROBE_DEAD, OP_PRESET, OP_DECODE_INSUFF,
       OP_DECODE_BADHDR, OP_BADARGS, OP_META, OP_ENCODE_THREAD, OP_RECON, OP_XDESTROY, OP_SIZE_LIE, OP_MT_FIRST, OP_ZPAR, OP_AVAIL, OP_LONG_LEN, OP_HUGE_LEN, OP_NOPS };
static const char *OPN[] = {"create", "create_fail", "destroy", "destroy_dead", "use", "probe_dead", "preset", "decode_insuff",
                            "decode_badhdr", "badargs", "meta", "encode_thread", "recon", "xdestroy", "size_lie", "mt_first", "zero_parity", "backend_available", "long_fragment_len", "huge_data_len"};
enum { MODE_C14 = 14, MODE_C15 = 15, MODE_C16 = 16 };
static const int NSLOTS = 4;
static bool g_explicit_lsan = true;     // the libFuzzer target switches to libFuzzer's own leak detection

struct SlotState {
    bool live = false; int desc = -1; Config g; bool has_stripe = false; Stripe s;
};
struct World {
    SlotState slot[NSLOTS];
    std::vector<int> dead;            // descriptors destroyed and not yet reissued
    std::set<int> ever;               // every descriptor ever returned
    bool preset_done = false;
    int mode;
    std::map<std::string, int> counts;
    bool same_backend_overlap = false, non_lifo = false, wrapped = false, failing_call = false, rebuilt = false;
    int encodes_same = 0;
    std::vector<int> create_order;
};

static Config shape_for(int a, int b) {
    Config g;
    static const int bes[] = {ref::B_RS, ref::B_XOR, ref::B_NULL, ref::B_ISA_C, ref::B_RS, ref::B_XOR, ref::B_ISA_V, ref::B_RS};
    g.backend = bes[a % 8];
    if (ref::is_isa(g.backend) && !isa_available()) g.backend = ref::B_RS;
    int sel = (a / 8);
    if (g.backend == ref::B_XOR) { const ref::XorShape &s = ref::XOR_SHAPES[sel % ref::N_XOR_SHAPES]; g.k = s.k; g.m = s.m; g.hd = s.hd; }
    else {
        static const int ks[] = {1, 2, 3, 4, 5, 8, 10, 16, 29, 31, 7, 12};
        g.k = ks[sel % 12];
        int maxm = std::min(32 - g.k, 8);
        g.m = 1 + (sel / 12) % maxm;
        g.hd = g.m;
    }
    g.ct = (b & 1) ? CT_CRC32 : CT_NONE;
    g.w = 0;
    return g;
}
static std::vector<uint8_t> data_for(const Config &g, int b) {
    size_t unit = (size_t)g.k * ref::word_bytes(g);
    size_t len = (b % 7 == 0) ? 0 : unit * (1 + b % 3) + (b % 5) - 2;
    if ((int64_t)len < 0) len = 1;
    std::vector<uint8_t> d(len);
    uint64_t sd = 99 + b;
    for (auto &x : d) x = (uint8_t)splitmix64(sd);
    return d;
}

static bool registry_scan(World &w, Result &r) {
    std::set<int> probe;
    for (int d : w.ever) for (long long x = (long long)d - 2; x <= (long long)d + 2; x++) if (x >= INT_MIN && x <= INT_MAX) probe.insert((int)x);
    if (w.preset_done) { for (int x = 1; x <= 8; x++) probe.insert(x); for (int x = INT_MAX - 8; x < INT_MAX; x++) probe.insert(x); probe.insert(INT_MAX); }
    probe.insert(0); probe.insert(-1);
    std::map<int, const SlotState *> live;
    for (auto &s : w.slot) if (s.live) live[s.desc] = &s;
    for (int d : probe) {
        int v = liberasurecode_get_minimum_encode_size(d);
        auto it = live.find(d);
        if (it == live.end()) { if (v >= 0) { r.fail("descriptor " + std::to_string(d) + " is not live in the model but the library answers a size query (" + std::to_string(v) + ")"); return false; } }
        else {
            int want = it->second->g.k * ref::word_bytes(it->second->g);
            if (v != want) { r.fail("live descriptor " + std::to_string(d) + ": minimum_encode_size=" + std::to_string(v) + " expected " + std::to_string(want) + " (instance identity / isolation)"); return false; }
        }
    }
    return true;
}
// one round trip on a live instance, result compared with the reference serializer's data path
static bool round_trip(SlotState &s, int salt, Result &r, bool check_serializer) {
    const Config &g = s.g;
    std::vector<uint8_t> data = data_for(g, salt);
    Stripe st = encode(s.desc, g, data);
    if (st.rc != 0) { r.fail("encode on live descriptor " + std::to_string(s.desc) + " failed rc=" + std::to_string(st.rc)); return false; }
    if (check_serializer) {
        auto want = ref::serialize_stripe(g, data.data(), data.size(), liberasurecode_get_version(), false);
        for (int i = 0; i < g.n(); i++) if (st.frags[i] != want[i]) { r.fail("encode output of descriptor " + std::to_string(s.desc) + " differs from the pure reference (fragment " + std::to_string(i) + "): " + first_diff(st.frags[i], want[i])); return false; }
    }
    if (g.backend == ref::B_NULL) return true;
    int t = ref::tolerance(g), n = g.n();
    int e = std::min(t, 1 + salt % 3);
    std::vector<const std::vector<uint8_t> *> frs;
    uint64_t pm = 0;
    for (int i = 0; i < n; i++) { if (i < e) continue; frs.push_back(&st.frags[(i + salt) % n]); pm |= 1ull << ((i + salt) % n); }
    FragSet fs; fs.build(frs, {});
    DecodeOut d = decode(s.desc, fs, st.fraglen, 0);
    bool demand = !(g.backend == ref::B_ISA_V && !ref::isa_first_k_invertible(g, pm));
    if (d.rc == 0) { if (d.out != data) { r.fail("decode on descriptor " + std::to_string(s.desc) + " returned wrong data after this history"); return false; } }
    else if (demand) { r.fail("decode on live descriptor " + std::to_string(s.desc) + " failed rc=" + std::to_string(d.rc)); return false; }
    return true;
}

static void *destroy_thread(void *p) { int *d = (int *)p; d[1] = liberasurecode_instance_destroy(d[0]); return nullptr; }
struct ThreadArg { int desc; const Config *g; const std::vector<uint8_t> *data; Stripe out; };
static void *encode_thread(void *p) { ThreadArg *a = (ThreadArg *)p; a->out = encode(a->desc, *a->g, *a->data); return nullptr; }

static void ro_queries(int desc, const Config &g, char **ptrs, int count, const Stripe &s, int first_idx, int sel, Result &r);
static Result run_history(const Case &c, int mode) {
    Result r;
    World w; w.mode = mode;
    next_backend_desc = (int)c.get("start_counter", 0);       // reset global state at the top of every case
    std::vector<int64_t> ops = c.list("ops");
    uint32_t running = liberasurecode_get_version();
    std::map<std::pair<uint64_t, int>, int> encode_points;      // (config hash, salt) -> times encoded
    auto fail_at = [&](size_t step, const std::string &m) { r.fail("step " + std::to_string(step) + " (" + OPN[ops[3 * step] % OP_NOPS] + "): " + m); };
    for (size_t st = 0; st + 2 < ops.size() + 0 && r.ok; st += 3) {
        size_t step = st / 3;
        int op = (int)(ops[st] % OP_NOPS); int64_t a = ops[st + 1], b = ops[st + 2];
        Result sr;
        w.counts[OPN[op]]++;
        switch (op) {
        case OP_CREATE: {
            int si = -1;
            for (int i = 0; i < NSLOTS; i++) if (!w.slot[i].live) { si = i; break; }
            if (si < 0) break;
            Config g = shape_for((int)a, (int)b);
            int d = create(g);
            if (d <= 0) { fail_at(step, "create of a supported configuration failed rc=" + std::to_string(d)); break; }
            for (auto &s : w.slot) if (s.live && s.desc == d) fail_at(step, "create returned descriptor " + std::to_string(d) + " which is still live");
            if (w.preset_done && d < 100) w.wrapped = true;
            for (auto &s : w.slot) if (s.live && s.g.backend == g.backend) w.same_backend_overlap = true;
            w.slot[si].live = true; w.slot[si].desc = d; w.slot[si].g = g; w.slot[si].has_stripe = false;
            w.ever.insert(d);
            w.dead.erase(std::remove(w.dead.begin(), w.dead.end(), d), w.dead.end());
            w.create_order.push_back(d);
            break;
        }
        case OP_CREATE_FAIL: {
            Config g = shape_for((int)b, 0);
            unsigned id = (unsigned)g.backend;
            switch (a % 7) {
            case 0: g.k = 31; g.m = 2; if (g.backend == ref::B_XOR) g.backend = ref::B_RS; id = g.backend; break;            // k+m > 32
            case 1: g.backend = ref::B_XOR; id = 3; g.k = 4; g.m = 4; g.hd = 3; break;      // unsupported triple
            case 2: g.k = 0; break;
            case 3: id = 9; break;
            case 4: id = 1; break;                                                          // jerasure: library not installed
            case 5: g.m = -1; break;
            default: id = 100; break;
            }
            struct ec_args ar; memset(&ar, 0, sizeof ar); ar.k = g.k; ar.m = g.m; ar.hd = g.hd; ar.w = g.w; ar.ct = g.ct;
            int d = liberasurecode_instance_create(id, &ar);
            if (d > 0) { fail_at(step, "create that must fail returned descriptor " + std::to_string(d)); liberasurecode_instance_destroy(d); }
            else if (d == 0) fail_at(step, "failed create returned 0");
            w.failing_call = true;
            break;
        }
        case OP_DESTROY: {
            SlotState &s = w.slot[a % NSLOTS];
            if (!s.live) {
                int dd = s.desc > 0 ? s.desc : 12345678;
                bool reissued = false;
                for (auto &o : w.slot) if (o.live && o.desc == dd) reissued = true;
                if (reissued) break;
                int rc = liberasurecode_instance_destroy(dd);
                if (rc >= 0) fail_at(step, "destroy of a dead descriptor returned " + std::to_string(rc));
                break;
            }
            int rc = liberasurecode_instance_destroy(s.desc);
            if (rc != 0) { fail_at(step, "destroy of live descriptor failed rc=" + std::to_string(rc)); break; }
            if (!w.create_order.empty() && w.create_order.back() != s.desc) w.non_lifo = true;
            w.create_order.erase(std::remove(w.create_order.begin(), w.create_order.end(), s.desc), w.create_order.end());
            s.live = false; w.dead.push_back(s.desc);
            break;
        }
        case OP_DESTROY_DEAD: {
            int d = w.dead.empty() ? 7777777 + (int)(a % 1000) : w.dead[a % w.dead.size()];
            bool live = false;
            for (auto &s : w.slot) if (s.live && s.desc == d) live = true;
            if (live) break;
            int rc = liberasurecode_instance_destroy(d);
            if (rc >= 0) fail_at(step, "destroy of dead descriptor " + std::to_string(d) + " returned " + std::to_string(rc));
            w.failing_call = true;
            break;
        }
        case OP_USE: case OP_RECON: {
            SlotState &s = w.slot[a % NSLOTS];
            if (!s.live) break;
            int salt = mode == MODE_C15 ? (int)(b % 3) : (int)(b % 1000);     // C15: repeat (configuration, data) often
            if (!round_trip(s, salt, sr, mode == MODE_C15)) { fail_at(step, sr.msg); break; }
            if (s.g.backend != ref::B_NULL) w.rebuilt = true;
            uint64_t ch = fnv1a(std::to_string(s.g.backend) + ":" + std::to_string(s.g.k) + ":" + std::to_string(s.g.m) + ":" + std::to_string(s.g.hd) + ":" + std::to_string(s.g.ct));
            if (++encode_points[{ch, salt}] >= 2) w.encodes_same++;
            // keep a stripe for later decode ops (history dependence)
            s.s = encode(s.desc, s.g, data_for(s.g, salt));
            s.has_stripe = s.s.rc == 0;
            if (op == OP_RECON && s.has_stripe && s.g.backend != ref::B_NULL) {
                int n = s.g.n(); int lost = (int)(b % n);
                std::vector<const std::vector<uint8_t> *> frs; uint64_t pm = 0;
                for (int i = 0; i < n; i++) if (i != lost) { frs.push_back(&s.s.frags[i]); pm |= 1ull << i; }
                std::vector<int> al(frs.size(), 0);
                for (size_t i = 0; i < al.size(); i++) al[i] = (int)((b >> (i % 8)) & 1) * (int)(1 + (b + i) % 15);
                FragSet fs; fs.build(frs, al);
                ReconOut o = reconstruct(s.desc, fs, s.s.fraglen, lost);
                bool demand = !(s.g.backend == ref::B_ISA_V && !ref::isa_first_k_invertible(s.g, pm));
                if (o.rc == 0) { if (o.out != s.s.frags[lost]) fail_at(step, "reconstruct returned a different fragment"); }
                else if (demand) fail_at(step, "reconstruct failed rc=" + std::to_string(o.rc));
                if (!fs.unchanged()) fail_at(step, "reconstruct modified an input");
                // the same repair from a stripe written under the other checksum type (pure reference writer): the
                // rebuilt fragment is governed by this instance's configuration, and the next encode is unaffected
                if (((b >> 9) & 1) && mode != MODE_C14) {
                    Config g2 = s.g; g2.ct = s.g.ct == CT_CRC32 ? CT_NONE : CT_CRC32;
                    std::vector<uint8_t> data = data_for(s.g, salt);
                    auto other = ref::serialize_stripe(g2, data.data(), data.size(), liberasurecode_get_version(), false);
                    std::vector<const std::vector<uint8_t> *> frs2;
                    for (int i = 0; i < n; i++) if (i != lost) frs2.push_back(&other[i]);
                    FragSet fs2; fs2.build(frs2, al);
                    ReconOut o2 = reconstruct(s.desc, fs2, other[0].size(), lost);
                    if (o2.rc == 0) { if (o2.out != s.s.frags[lost]) fail_at(step, "reconstruct from a stripe written with another checksum type returned a fragment that differs from this instance's own: " + first_diff(o2.out, s.s.frags[lost])); }
                    else if (demand) fail_at(step, "reconstruct from a stripe written with another checksum type failed rc=" + std::to_string(o2.rc));
                    if (!fs2.unchanged()) fail_at(step, "reconstruct modified an input");
                    Stripe again = encode(s.desc, s.g, data);
                    if (again.rc != 0 || again.frags != s.s.frags) fail_at(step, "encode after a reconstruct of a foreign-checksum-type stripe differs from the same encode before it");
                    w.counts["foreign_ct_rebuild"]++;
                }
            }
            break;
        }
        case OP_PROBE_DEAD: {
            int d = w.dead.empty() ? 4242424 + (int)(a % 1000) : w.dead[a % w.dead.size()];
            bool live = false;
            for (auto &s : w.slot) if (s.live && s.desc == d) live = true;
            if (live) break;
            char *frag = (char *)calloc(1, 160); char *fp[1] = {frag}; char **ed = nullptr, **ep = nullptr; uint64_t fl = 0; char *out = nullptr; uint64_t ol = 0;
            int lst[2] = {0, -1}, none[1] = {-1}, need[40];
            struct { const char *n; int rc; bool one; } pr[] = {
                {"encode", liberasurecode_encode(d, frag, 10, &ed, &ep, &fl), false},
                {"encode_cleanup", liberasurecode_encode_cleanup(d, nullptr, nullptr), false},
                {"decode", liberasurecode_decode(d, fp, 1, 160, 0, &out, &ol), false},
                {"decode_cleanup", liberasurecode_decode_cleanup(d, nullptr), false},
                {"reconstruct", liberasurecode_reconstruct_fragment(d, fp, 1, 160, 0, frag), false},
                {"fragments_needed", liberasurecode_fragments_needed(d, lst, none, need), false},
                {"is_invalid_fragment", is_invalid_fragment(d, frag), true},
                {"verify_stripe_metadata", liberasurecode_verify_stripe_metadata(d, fp, 1), false},
                {"get_aligned_data_size", liberasurecode_get_aligned_data_size(d, 100), false},
                {"get_minimum_encode_size", liberasurecode_get_minimum_encode_size(d), false},
                {"get_fragment_size", liberasurecode_get_fragment_size(d, 100), false},
                {"instance_destroy", liberasurecode_instance_destroy(d), false},
            };
            for (auto &p : pr) if (p.one ? p.rc == 0 : p.rc >= 0) fail_at(step, std::string(p.n) + " accepted dead descriptor " + std::to_string(d) + " (returned " + std::to_string(p.rc) + ")");
            free(frag);
            w.failing_call = true;
            break;
        }
        case OP_PRESET: next_backend_desc = INT_MAX - (int)(a % 4); w.preset_done = true; break;
        case OP_DECODE_INSUFF: {
            SlotState &s = w.slot[a % NSLOTS];
            if (!s.live || !s.has_stripe || s.g.backend == ref::B_NULL) break;
            int n = s.g.n(), t = ref::tolerance(s.g);
            int keep = (int)(b % 4 == 0 ? 0 : std::max(0, n - t - 1 - (int)(b % 3)));
            std::vector<const std::vector<uint8_t> *> frs;
            for (int i = 0; i < keep; i++) frs.push_back(&s.s.frags[(i + b) % n]);
            if (b % 5 == 0 && !frs.empty()) frs.push_back(frs[0]);          // duplicate
            std::vector<int> al(frs.size(), (int)(b % 3 == 0 ? 5 : 0));
            FragSet fs; fs.build(frs, al);
            DecodeOut d = decode(s.desc, fs, s.s.fraglen, (int)(b & 1));
            if (d.rc == 0 && d.out != s.s.data) fail_at(step, "decode beyond tolerance succeeded with wrong bytes");
            if (d.rc > 0) fail_at(step, "positive rc");
            ReconOut o = reconstruct(s.desc, fs, s.s.fraglen, (int)(b % n));
            if (o.rc == 0 && o.out != s.s.frags[b % n]) fail_at(step, "reconstruct beyond tolerance succeeded with wrong bytes");
            w.failing_call = true;
            break;
        }
        case OP_DECODE_BADHDR: {
            SlotState &s = w.slot[a % NSLOTS];
            if (!s.live || !s.has_stripe) break;
            int n = s.g.n();
            std::vector<std::vector<uint8_t>> cp(s.s.frags);
            cp[b % n][(b / 7) % 59] ^= 0x40;                                  // stale metadata CRC
            std::vector<const std::vector<uint8_t> *> frs;
            for (auto &x : cp) frs.push_back(&x);
            FragSet fs; fs.build(frs, {});
            DecodeOut d = decode(s.desc, fs, s.s.fraglen, 0);
            if (d.rc != -E_BADHEADER) fail_at(step, "decode with a damaged header returned " + std::to_string(d.rc));
            ReconOut o = reconstruct(s.desc, fs, s.s.fraglen, 0);
            if (o.rc != -E_BADHEADER) fail_at(step, "reconstruct with a damaged header returned " + std::to_string(o.rc));
            if (s.g.backend != ref::B_NULL) {
                DecodeOut d2 = decode(s.desc, fs, s.s.fraglen, 1);             // forced checks drop the bad one
                if (d2.rc == 0 && d2.out != s.s.data) fail_at(step, "forced decode returned wrong data");
            }
            w.failing_call = true;
            break;
        }
        case OP_BADARGS: {
            SlotState &s = w.slot[a % NSLOTS];
            int d = s.live ? s.desc : -5;
            char **ed = nullptr, **ep = nullptr; uint64_t fl = 0; char *out = nullptr; uint64_t ol = 0;
            char buf[200]; memset(buf, 0, sizeof buf); char *fp[1] = {buf};
            int rcs[] = {
                liberasurecode_encode(d, nullptr, 10, &ed, &ep, &fl),
                liberasurecode_encode(d, buf, 10, nullptr, &ep, &fl),
                liberasurecode_decode(d, nullptr, 3, 200, 0, &out, &ol),
                liberasurecode_decode(d, fp, 1, 200, 0, nullptr, &ol),
                liberasurecode_decode(d, fp, -1, 200, 0, &out, &ol),
                liberasurecode_reconstruct_fragment(d, nullptr, 1, 200, 0, buf),
                liberasurecode_reconstruct_fragment(d, fp, 1, 200, 0, nullptr),
                liberasurecode_fragments_needed(d, nullptr, nullptr, nullptr),
                liberasurecode_get_fragment_metadata(nullptr, nullptr),
                liberasurecode_verify_stripe_metadata(d, nullptr, 1),
                liberasurecode_verify_stripe_metadata(d, fp, 0),
            };
            for (size_t i = 0; i < sizeof rcs / sizeof rcs[0]; i++) if (rcs[i] >= 0) fail_at(step, "invalid-argument call #" + std::to_string(i) + " returned " + std::to_string(rcs[i]));
            if (ed || ep || out) fail_at(step, "output pointer set by a refused call");
            w.failing_call = true;
            break;
        }
        case OP_META: {
            SlotState &s = w.slot[a % NSLOTS];
            if (!s.live || !s.has_stripe) break;
            int n = s.g.n();
            bool guard = mode == MODE_C15;
            std::vector<std::unique_ptr<Guarded>> gs; std::vector<char *> ptrs;
            std::vector<std::unique_ptr<ExactBuf>> es;
            for (int i = 0; i < n; i++) {
                if (guard) { gs.emplace_back(new Guarded); gs.back()->place(s.s.frags[i].data(), s.s.frags[i].size(), (b >> i) & 1, 0); ptrs.push_back((char *)gs.back()->p); }
                else { es.emplace_back(new ExactBuf(s.s.frags[i])); ptrs.push_back(es.back()->p); }
            }
            for (int i = 0; i < n; i++) {
                fragment_metadata_t md;
                if (liberasurecode_get_fragment_metadata(ptrs[i], &md) != 0) fail_at(step, "metadata query failed on a fragment of the kept stripe");
                else if (md.idx != (uint32_t)i || md.orig_data_size != s.s.data.size() || md.backend_id != (uint8_t)s.g.backend) fail_at(step, "metadata fields wrong");
                if (is_invalid_fragment(s.desc, ptrs[i]) != 0) fail_at(step, "fragment of the kept stripe reported invalid");
                if (ref::fragment_invalid(s.g, running, s.s.frags[i].data())) fail_at(step, "model error");
            }
            if (liberasurecode_verify_stripe_metadata(s.desc, ptrs.data(), n) != 0) fail_at(step, "verify_stripe_metadata failed on the kept stripe");
            {   // the opposite-endian image of one fragment (fields swapped, CRC recomputed and stored swapped), same placement
                std::vector<uint8_t> tw = s.s.frags[b % n];
                uint8_t *h = tw.data();
                auto sw32 = [&](int off) { ref::put32(h + off, ref::bswap32(ref::get32(h + off))); };
                sw32(ref::O_IDX); sw32(ref::O_SIZE); sw32(ref::O_BMS);
                uint64_t o = ref::get64(h + ref::O_ORIG); ref::put64(h + ref::O_ORIG, ((uint64_t)ref::bswap32((uint32_t)o) << 32) | ref::bswap32((uint32_t)(o >> 32)));
                for (int q = 0; q < 8; q++) sw32(ref::O_CHK + 4 * q);
                sw32(ref::O_BEVER); sw32(ref::O_MAGIC); sw32(ref::O_LIBVER);
                ref::put32(h + ref::O_MCRC, ref::bswap32(ref::crc32_std(h, ref::META_LEN)));
                std::unique_ptr<Guarded> gt; std::unique_ptr<ExactBuf> et; char *tp;
                if (guard) { gt.reset(new Guarded); gt->place(tw.data(), tw.size(), ((b >> 5) & 1) == 0, 0); tp = (char *)gt->p; } else { et.reset(new ExactBuf(tw)); tp = et->p; }
                fragment_metadata_t md; memset(&md, 0x33, sizeof md);
                int rc = liberasurecode_get_fragment_metadata(tp, &md);
                if (rc != 0) fail_at(step, "metadata query rejected the opposite-endian image of a fragment rc=" + std::to_string(rc));
                else if (md.idx != (uint32_t)(b % n) || md.size != s.s.fraglen - 80 || md.orig_data_size != s.s.data.size() || md.chksum_mismatch != 0) fail_at(step, "metadata of the opposite-endian image differs from the native one");
                if (memcmp(tp, tw.data(), tw.size())) fail_at(step, "query modified the opposite-endian image");
            }
            for (int i = 0; i < n; i++) if (memcmp(ptrs[i], s.s.frags[i].data(), s.s.frags[i].size())) fail_at(step, "query modified a fragment");
            break;
        }
        case OP_XDESTROY: {
            // the owner looks the descriptor up, ANOTHER thread destroys it (joined before we go on), then the
            // owner must find it refused: a destroyed descriptor is dead for every thread
            SlotState &s = w.slot[a % NSLOTS];
            if (!s.live) break;
            if (liberasurecode_get_minimum_encode_size(s.desc) <= 0) { fail_at(step, "live descriptor refused"); break; }
            int dd[2] = {s.desc, 12345};
            pthread_t th;
            if (pthread_create(&th, nullptr, destroy_thread, dd) != 0) break;
            pthread_join(th, nullptr);
            if (dd[1] != 0) { fail_at(step, "destroy from another thread failed rc=" + std::to_string(dd[1])); break; }
            if (!w.create_order.empty() && w.create_order.back() != s.desc) w.non_lifo = true;
            w.create_order.erase(std::remove(w.create_order.begin(), w.create_order.end(), s.desc), w.create_order.end());
            s.live = false; w.dead.push_back(s.desc);
            int v = liberasurecode_get_minimum_encode_size(s.desc);
            if (v >= 0) fail_at(step, "descriptor " + std::to_string(s.desc) + " destroyed by another thread still answers a size query on the owner thread (" + std::to_string(v) + ")");
            int v2 = liberasurecode_instance_destroy(s.desc);
            if (v2 >= 0) fail_at(step, "second destroy (owner thread) of a descriptor destroyed by another thread returned " + std::to_string(v2));
            w.failing_call = true;
            break;
        }
        case OP_ZPAR: {
            // an auxiliary Reed-Solomon instance WITHOUT parity fragments (m = 0 is an accepted shape: plain striping)
            // lives and dies while the slots stay as they are; every live slot must work as before afterwards
            Config g; g.backend = ref::B_RS; g.k = 1 + (int)(a % 12); g.m = 0; g.hd = 0; g.w = 0; g.ct = (b & 1) ? CT_CRC32 : CT_NONE;
            int d = create(g);
            if (d <= 0) { fail_at(step, "create of rs_vand k=" + std::to_string(g.k) + " m=0 failed rc=" + std::to_string(d)); break; }
            for (auto &s : w.slot) if (s.live && s.desc == d) fail_at(step, "create returned a live descriptor");
            std::vector<uint8_t> data = data_for(g, (int)(b % 1000));
            Stripe st = encode(d, g, data);
            if (st.rc != 0) fail_at(step, "encode on the zero-parity instance failed rc=" + std::to_string(st.rc));
            else {
                auto want = ref::serialize_stripe(g, data.data(), data.size(), running, false);
                for (int i = 0; i < g.n(); i++) if (st.frags[i] != want[i]) { fail_at(step, "zero-parity encode differs from the pure reference"); break; }
                std::vector<const std::vector<uint8_t> *> frs;
                for (int i = 0; i < g.n(); i++) frs.push_back(&st.frags[i]);
                FragSet fs; fs.build(frs, {});
                DecodeOut dd = decode(d, fs, st.fraglen, 0);
                if (dd.rc != 0 || dd.out != data) fail_at(step, "zero-parity decode of a complete stripe failed or returned wrong data");
            }
            if (liberasurecode_instance_destroy(d) != 0) fail_at(step, "destroy of the zero-parity instance failed");
            w.ever.insert(d); w.dead.push_back(d);
            for (auto &s : w.slot) if (s.live && r.ok) { Result rr; if (!round_trip(s, (int)(b % 3), rr, mode == MODE_C15)) fail_at(step, "after the life of a zero-parity instance: " + rr.msg); if (s.g.backend == ref::B_RS) w.same_backend_overlap = true; }
            break;
        }
        case OP_AVAIL: {
            // the availability query, asked while instances of that back end live: it answers, and it leaves them alone
            int ids[] = {ref::B_NULL, ref::B_XOR, ref::B_RS, ref::B_ISA_V, ref::B_ISA_C, 1, 2, 5, 8};
            int id = (b & 1) && w.slot[a % NSLOTS].live ? w.slot[a % NSLOTS].g.backend : ids[a % 9];
            int rc = liberasurecode_backend_available((unsigned)id);
            bool installed = id == ref::B_NULL || id == ref::B_XOR || id == ref::B_RS || (ref::is_isa(id) && isa_available());
            if (installed && rc <= 0) fail_at(step, "backend_available(" + std::to_string(id) + ") = " + std::to_string(rc) + " for an installed back end");
            if (!installed && rc > 0) fail_at(step, "backend_available(" + std::to_string(id) + ") = " + std::to_string(rc) + " for a back end whose library is not installed");
            for (auto &s : w.slot) if (s.live && s.g.backend == id && r.ok) { Result rr; if (!round_trip(s, (int)(b % 3), rr, mode == MODE_C15)) fail_at(step, "after backend_available(" + std::to_string(id) + "): " + rr.msg); }
            break;
        }
        case OP_LONG_LEN: {
            // fragments kept in fixed-size zero-padded slots: fragment_len is the slot size, larger than the fragments are.
            // Only what is forced is demanded: rc 0 => the right bytes; any outcome => inputs untouched, nothing leaked
            SlotState &s = w.slot[a % NSLOTS];
            if (!s.live || !s.has_stripe || s.g.backend == ref::B_NULL) break;
            int n = s.g.n(), t = ref::tolerance(s.g);
            if (t < 1) break;
            uint64_t slot_len = s.s.fraglen + 16 * (1 + (b >> 4) % 8);
            int lost = (int)(b % n);
            std::vector<std::vector<uint8_t>> cp;
            for (int i = 0; i < n; i++) if (i != lost) { cp.push_back(s.s.frags[i]); cp.back().resize(slot_len, 0); }
            std::vector<const std::vector<uint8_t> *> frs;
            for (auto &x : cp) frs.push_back(&x);
            {
                FragSet fs; fs.build(frs, {});
                ReconOut o = reconstruct(s.desc, fs, slot_len, lost);
                if (o.rc > 0) fail_at(step, "positive rc");
                if (o.rc == 0 && (o.out.size() < s.s.fraglen || memcmp(o.out.data(), s.s.frags[lost].data(), s.s.fraglen))) fail_at(step, "reconstruct with a padded fragment length returned rc 0 with a different fragment");
                if (!fs.unchanged()) fail_at(step, "reconstruct modified an input");
            }
            {
                FragSet fs; fs.build(frs, {});
                DecodeOut d = decode(s.desc, fs, slot_len, (int)((b >> 3) & 1));
                if (d.rc > 0) fail_at(step, "positive rc");
                if (d.rc == 0 && d.out != s.s.data) fail_at(step, "decode with a padded fragment length returned rc 0 with wrong data");
                if (!fs.unchanged()) fail_at(step, "decode modified an input");
            }
            w.failing_call = true;
            break;
        }
        case OP_HUGE_LEN: {
            // encode of an (honest, virtual-only) buffer of 4 GiB + 4 KiB through output variables that still hold the
            // arrays of an earlier, not yet released encode. Whether the library encodes, truncates or refuses is not
            // what is judged: the earlier result must stay intact and releasable exactly once, and nothing may leak
            SlotState &s = w.slot[a % NSLOTS];
            if (!s.live) break;
            std::vector<uint8_t> d0 = data_for(s.g, 1 + (int)(b % 5));
            char **ed = nullptr, **ep = nullptr; uint64_t fl = 0;
            if (liberasurecode_encode(s.desc, (const char *)d0.data(), d0.size(), &ed, &ep, &fl) != 0) { fail_at(step, "encode failed"); break; }
            char **ed0 = ed, **ep0 = ep; uint64_t fl0 = fl;
            size_t huge = ((size_t)1 << 32) + 4096;
            void *big = mmap(nullptr, huge, PROT_READ, MAP_PRIVATE | MAP_ANONYMOUS | MAP_NORESERVE, -1, 0);
            if (big != MAP_FAILED) {
                int rc = liberasurecode_encode(s.desc, (const char *)big, huge, &ed, &ep, &fl);
                if (rc > 0) fail_at(step, "positive rc");
                if (rc == 0) { if (ed == ed0 || ep == ep0) fail_at(step, "a successful encode returned the arrays of the previous one"); else liberasurecode_encode_cleanup(s.desc, ed, ep); }
                munmap(big, huge);
                w.failing_call = w.failing_call || rc < 0;
            }
            auto want = ref::serialize_stripe(s.g, d0.data(), d0.size(), running, false);
            for (int i = 0; i < s.g.n() && r.ok; i++) { char *f = i < s.g.k ? ed0[i] : ep0[i - s.g.k]; if (fl0 != want[i].size() || memcmp(f, want[i].data(), fl0)) fail_at(step, "the earlier encode's fragments changed during an encode of another buffer"); }
            if (liberasurecode_encode_cleanup(s.desc, ed0, ep0) != 0) fail_at(step, "encode_cleanup of the earlier result failed");
            break;
        }
        case OP_MT_FIRST: {
            // several threads make the FIRST calls on a freshly created descriptor at the same time (lazily built
            // per-instance state must not be built twice and lost); the end-of-history leak check is the oracle
            Config g = shape_for((int)a, (int)b);
            if (g.backend == ref::B_NULL) g.backend = ref::B_RS;
            int d = create(g);
            if (d <= 0) { fail_at(step, "create failed"); break; }
            std::vector<uint8_t> data = data_for(g, (int)(b % 1000));
            const int NT = 4;
            ThreadArg ta[NT]; pthread_t th[NT];
            static pthread_barrier_t bar;
            pthread_barrier_init(&bar, nullptr, NT);
            struct Go { ThreadArg *t; pthread_barrier_t *b; } go[NT];
            for (int i = 0; i < NT; i++) { ta[i] = ThreadArg{d, &g, &data, Stripe()}; go[i] = Go{&ta[i], &bar}; }
            auto entry = [](void *p) -> void * { Go *g2 = (Go *)p; pthread_barrier_wait(g2->b); g2->t->out = encode(g2->t->desc, *g2->t->g, *g2->t->data); return nullptr; };
            for (int i = 0; i < NT; i++) pthread_create(&th[i], nullptr, entry, &go[i]);
            for (int i = 0; i < NT; i++) pthread_join(th[i], nullptr);
            pthread_barrier_destroy(&bar);
            auto want = ref::serialize_stripe(g, data.data(), data.size(), running, false);
            for (int i = 0; i < NT; i++) {
                if (ta[i].out.rc != 0) { fail_at(step, "concurrent first encode failed"); break; }
                for (int f = 0; f < g.n(); f++) if (ta[i].out.frags[f] != want[f]) { fail_at(step, "concurrent first encode differs from the reference"); break; }
            }
            if (liberasurecode_instance_destroy(d) != 0) fail_at(step, "destroy failed");
            break;
        }
        case OP_SIZE_LIE: {
            // re-sealed fragments that disagree on the original data length: a documented error path
            // ("Inconsistent orig_data_size"); only memory safety and leak freedom are demanded here
            SlotState &s = w.slot[a % NSLOTS];
            if (!s.live || !s.has_stripe || s.s.data.size() < 8) break;
            int n = s.g.n();
            std::vector<std::vector<uint8_t>> cp(s.s.frags);
            int nlie = 1 + (int)(b % 2);
            for (int j = 0; j < nlie; j++) {
                std::vector<uint8_t> &f = cp[(b / 3 + j * 5) % n];
                uint64_t o = ref::get64(&f[ref::O_ORIG]);
                int64_t delta = (int64_t)((b >> 4) % 7) - 3; if (delta == 0) delta = 1;
                if ((int64_t)o + delta < 0) delta = 1;
                ref::put64(&f[ref::O_ORIG], o + delta);
                ref::reseal(f.data());
            }
            std::vector<const std::vector<uint8_t> *> frs;
            int drop = (int)((b >> 8) % 3);      // 0: complete, 1: one data fragment missing, 2: one parity missing
            for (int i = 0; i < n; i++) { if (drop == 1 && i == (int)(b % s.g.k)) continue; if (drop == 2 && i == s.g.k + (int)(b % s.g.m)) continue; frs.push_back(&cp[i]); }
            for (int force = 0; force < 2; force++) {
                FragSet fs; fs.build(frs, {});
                DecodeOut d = decode(s.desc, fs, s.s.fraglen, force);
                if (d.rc > 0) fail_at(step, "positive rc");
                if (!fs.unchanged()) fail_at(step, "decode modified an input");
            }
            w.failing_call = true;
            break;
        }
        case OP_ENCODE_THREAD: {
            SlotState &s = w.slot[a % NSLOTS];
            if (!s.live) break;
            int salt = mode == MODE_C15 ? (int)(b % 3) : (int)(b % 1000);
            std::vector<uint8_t> data = data_for(s.g, salt);
            ThreadArg ta{s.desc, &s.g, &data, Stripe()};
            pthread_t th;
            if (pthread_create(&th, nullptr, encode_thread, &ta) != 0) break;
            pthread_join(th, nullptr);
            if (ta.out.rc != 0) { fail_at(step, "encode on another thread failed"); break; }
            auto want = ref::serialize_stripe(s.g, data.data(), data.size(), running, false);
            for (int i = 0; i < s.g.n(); i++) if (ta.out.frags[i] != want[i]) { fail_at(step, "encode on another thread differs from the pure reference: fragment " + std::to_string(i)); break; }
            uint64_t ch = fnv1a(std::to_string(s.g.backend) + ":" + std::to_string(s.g.k) + ":" + std::to_string(s.g.m) + ":" + std::to_string(s.g.hd) + ":" + std::to_string(s.g.ct));
            if (++encode_points[{ch, salt}] >= 2) w.encodes_same++;
            break;
        }
        }
        if (!r.ok) break;
        if (mode == MODE_C14) {
            if (!registry_scan(w, sr)) { fail_at(step, sr.msg); break; }
            for (int i = 0; i < NSLOTS && r.ok; i++) if (w.slot[i].live) { if (!round_trip(w.slot[i], (int)(step * 3 + i), sr, false)) fail_at(step, "after this step: " + sr.msg); }
        }
    }
    // C15: guarded decode/reconstruct of every kept stripe at the end of the history
    if (mode == MODE_C15 && r.ok) {
        int gi = 0;
        for (auto &s : w.slot) {
            if (!s.live || !s.has_stripe || s.g.backend == ref::B_NULL) continue;
            int n = s.g.n(), t = ref::tolerance(s.g);
            int64_t salt = c.get("salt") + gi++;
            int e = std::min(t, 1 + (int)(salt % 3 == 0 ? t - 1 : salt % std::max(1, t)));
            std::vector<std::unique_ptr<Guarded>> gs;
            long pg = sysconf(_SC_PAGESIZE);
            uint64_t pm = 0;
            std::vector<char *> ptrs;
            for (int i = e; i < n; i++) {
                int idx = (int)((i + salt) % n);
                pm |= 1ull << idx;
                gs.emplace_back(new Guarded);
                gs.back()->place(s.s.frags[idx].data(), s.s.frags[idx].size(), ((salt >> (i % 16)) & 1) == 0, ((salt >> ((i + 3) % 16)) & 1) ? (int)(1 + (salt + i) % 15) : 0);
                ptrs.push_back((char *)gs.back()->p);
            }
            // the pointer array itself on a read-only page ending at a guard page
            Guarded arr; arr.place((const uint8_t *)ptrs.data(), ptrs.size() * sizeof(char *), true, 0);
            (void)pg;
            char *out = nullptr; uint64_t ol = 0;
            int rc = liberasurecode_decode(s.desc, (char **)arr.p, (int)ptrs.size(), s.s.fraglen, (int)(salt & 1), &out, &ol);
            bool demand = !(s.g.backend == ref::B_ISA_V && !ref::isa_first_k_invertible(s.g, pm));
            if (rc == 0) { if (ol != s.s.data.size() || (ol && memcmp(out, s.s.data.data(), ol))) r.fail("guarded decode returned wrong data"); liberasurecode_decode_cleanup(s.desc, out); }
            else if (demand) r.fail("guarded decode failed rc=" + std::to_string(rc));
            int lost = (int)(salt % n);
            if (!(pm >> lost & 1)) {
                std::vector<uint8_t> o(s.s.fraglen);
                rc = liberasurecode_reconstruct_fragment(s.desc, (char **)arr.p, (int)ptrs.size(), s.s.fraglen, lost, (char *)o.data());
                if (rc == 0) { if (o != s.s.frags[lost]) r.fail("guarded reconstruct returned a different fragment"); }
                else if (demand) r.fail("guarded reconstruct failed rc=" + std::to_string(rc));
            }
            ro_queries(s.desc, s.g, (char **)arr.p, (int)ptrs.size(), s.s, (int)((e + salt) % n), (int)(salt % 7), r);
            for (size_t i = 0; i < gs.size(); i++) { int idx = (int)((i + e + salt) % n); if (memcmp(gs[i]->p, s.s.frags[idx].data(), s.s.frags[idx].size())) r.fail("an input fragment changed"); }
            // encode from read-only data ending at a guard page
            std::vector<uint8_t> data = data_for(s.g, (int)(salt % 1000));
            Guarded gd; gd.place(data.data(), data.size(), true, (int)(salt % 3));
            char **ed = nullptr, **ep = nullptr; uint64_t fl = 0;
            rc = liberasurecode_encode(s.desc, (const char *)gd.p, data.size(), &ed, &ep, &fl);
            if (rc != 0) r.fail("guarded encode failed");
            else {
                auto want = ref::serialize_stripe(s.g, data.data(), data.size(), running, false);
                for (int i = 0; i < n; i++) { char *f = i < s.g.k ? ed[i] : ep[i - s.g.k]; if (fl != want[i].size() || memcmp(f, want[i].data(), fl)) { r.fail("guarded encode output differs from the pure reference (fragment " + std::to_string(i) + ")"); break; } }
                liberasurecode_encode_cleanup(s.desc, ed, ep);
            }
            w.rebuilt = true;
        }
    }
    // tear down
    for (auto &s : w.slot) if (s.live) { if (liberasurecode_instance_destroy(s.desc) != 0) r.fail("final destroy failed"); s.live = false; s.s = Stripe(); }
    for (auto &s : w.slot) s.s = Stripe();
    if (mode == MODE_C16 && r.ok && g_explicit_lsan) {
        if (__lsan_do_recoverable_leak_check() != 0 && (r.fatal = true)) r.fail("LeakSanitizer: memory still allocated after the history and destruction of all instances");
    }
    for (auto &p : w.counts) r.cls("op_" + p.first);
    if (w.wrapped) r.cls("counter_wrapped");
    if (w.non_lifo) r.cls("non_lifo_destroy");
    if (w.same_backend_overlap) r.cls("same_backend_overlap");
    if (mode == MODE_C14) r.nontrivial = w.same_backend_overlap && (w.non_lifo || w.wrapped);
    else if (mode == MODE_C15) r.nontrivial = w.encodes_same >= 1 && w.rebuilt;
    else r.nontrivial = w.failing_call && w.rebuilt;
    return r;
}
// the remaining public calls that take fragments, on the same read-only inputs: reconstruct of an index that IS among
// the fragments (documented corner case: returns a copy), metadata query, validation, stripe verification
static void ro_queries(int desc, const Config &g, char **ptrs, int count, const Stripe &s, int first_idx, int sel, Result &r) {
    if (count <= 0) return;
    {
        std::vector<uint8_t> o(s.fraglen, 0x5A);
        int rc = liberasurecode_reconstruct_fragment(desc, ptrs, count, s.fraglen, first_idx, (char *)o.data());
        if (rc == 0 && o != s.frags[first_idx]) r.fail("reconstruct of a supplied index (read-only inputs) returned different bytes");
        if (rc > 0) r.fail("positive rc");
    }
    fragment_metadata_t md; memset(&md, 0, sizeof md);
    char *f = ptrs[sel % count];
    int rc = liberasurecode_get_fragment_metadata(f, &md);
    if (rc != 0) r.fail("get_fragment_metadata on a read-only fragment failed rc=" + std::to_string(rc));
    if (g.backend != ref::B_NULL && is_invalid_fragment(desc, f) != 0) r.fail("is_invalid_fragment on a read-only intact fragment says invalid");
    rc = liberasurecode_verify_stripe_metadata(desc, ptrs, count);
    if (rc != 0) r.fail("verify_stripe_metadata on read-only intact fragments returned " + std::to_string(rc));
}
// C15 sweep case: one decode + reconstruct with every input (fragments, pointer array) on read-only pages
// flush against guard pages. `aligned`=1 keeps the fragments 16-byte aligned (the library then works on the
// caller's buffers directly - any in-place scratch use faults), 0 forces the re-aligning copy path.
static Result run_c15_guard(const Case &c) {
    Result r;
    Config g = cfg_from(c);
    if (ref::is_isa(g.backend) && !isa_available()) { r.skipped = true; return r; }
    std::vector<uint8_t> data = expand_buffer(c, "data");
    Instance in(g);
    if (!in.ok()) { r.fail("create refused"); return r; }
    Stripe s = encode(in.desc, g, data);
    if (s.rc != 0) { r.fail("encode failed"); return r; }
    int n = g.n();
    std::vector<int> present = c.ints("present");
    bool aligned = c.get("aligned") != 0;
    int flushsel = (int)c.get("flush");
    uint64_t pm = 0;
    std::vector<std::unique_ptr<Guarded>> gs;
    std::vector<char *> ptrs;
    for (size_t i = 0; i < present.size(); i++) {
        int idx = present[i];
        pm |= 1ull << idx;
        gs.emplace_back(new Guarded);
        bool end_flush = ((flushsel >> (i % 16)) & 1) == 0;
        gs.back()->place(s.frags[idx].data(), s.frags[idx].size(), end_flush, aligned ? 0 : (int)(1 + (i * 7 + flushsel) % 15));
        ptrs.push_back((char *)gs.back()->p);
    }
    if (ptrs.empty()) { r.skipped = true; return r; }
    Guarded arr; arr.place((const uint8_t *)ptrs.data(), ptrs.size() * sizeof(char *), true, 0);
    bool demand = (n - __builtin_popcountll(pm)) <= ref::tolerance(g) && !(g.backend == ref::B_ISA_V && !ref::isa_first_k_invertible(g, pm));
    char *out = nullptr; uint64_t ol = 0;
    int rc = liberasurecode_decode(in.desc, (char **)arr.p, (int)ptrs.size(), s.fraglen, (int)c.get("force"), &out, &ol);
    if (rc == 0) { if (ol != data.size() || (ol && memcmp(out, data.data(), ol))) r.fail("guarded decode returned wrong data"); liberasurecode_decode_cleanup(in.desc, out); }
    else if (demand) r.fail("guarded decode failed rc=" + std::to_string(rc));
    for (int d : c.ints("dests")) {
        if (d < 0 || d >= n) continue;
        std::vector<uint8_t> o(s.fraglen, 0xA5);
        rc = liberasurecode_reconstruct_fragment(in.desc, (char **)arr.p, (int)ptrs.size(), s.fraglen, d, (char *)o.data());
        if (rc == 0) { if (o != s.frags[d]) r.fail("guarded reconstruct(" + std::to_string(d) + ") returned a different fragment"); }
        else if (demand) r.fail("guarded reconstruct(" + std::to_string(d) + ") failed rc=" + std::to_string(rc));
    }
    ro_queries(in.desc, g, (char **)arr.p, (int)ptrs.size(), s, present[0], flushsel % 7, r);
    for (size_t i = 0; i < gs.size(); i++) if (memcmp(gs[i]->p, s.frags[present[i]].data(), s.frags[present[i]].size())) r.fail("an input fragment changed");
    bool lost_data = false;
    for (int i = 0; i < g.k; i++) if (!(pm >> i & 1)) lost_data = true;
    r.cls(std::string("be_") + be_name(g.backend)); r.cls(aligned ? "aligned_inputs" : "unaligned_inputs");
    r.nontrivial = lost_data;
    return r;
}
// every flat-XOR table x every erasure set below hd, and every RS/ISA shape with |E| = m, under guard pages
static void sweep_c15_guard() {
    int shard = (int)opts().shard, ns = (int)opts().nshards, counter = 0;
    bool th = opts().tier == "thorough";
    auto emit = [&](const Config &g, const std::vector<int> &E, int variant) {
        int n = g.n();
        Case c; cfg_to(c, g);
        // payload a multiple of 16 so that aligned buffers end exactly at the guard page
        size_t unit = (size_t)g.k * 16;
        c.set("data_cls", BUF_RANDOM); c.set("data_seed", 900 + counter); c.set("data_len", (int64_t)(unit * (1 + variant % 2)));
        std::vector<bool> gone(n, false);
        for (int x : E) gone[x] = true;
        std::vector<int> p;
        for (int i = 0; i < n; i++) if (!gone[i]) p.push_back(i);
        c.setv("present", p);
        c.set("aligned", variant < 2 ? 1 : 0); c.set("flush", variant == 1 ? 0xffff : (counter & 0xffff) * (variant == 0 ? 0 : 1)); c.set("force", 0);
        c.setv("dests", E);
        sweep_case(c, run_c15_guard);
    };
    for (int si = 0; si < ref::N_XOR_SHAPES; si++) {
        const ref::XorShape &sh = ref::XOR_SHAPES[si];
        Config g; g.backend = ref::B_XOR; g.k = sh.k; g.m = sh.m; g.hd = sh.hd; g.ct = (si & 1) ? CT_CRC32 : CT_NONE;
        int n = g.n();
        for (int e = 1; e < sh.hd; e++) {
            std::vector<int> idx(e);
            for (int i = 0; i < e; i++) idx[i] = i;
            for (;;) {
                if ((counter++ % ns) == shard) { emit(g, idx, 0); if (th || (counter % 4) == 0) { emit(g, idx, 1); emit(g, idx, 2); } }
                int i = e - 1;
                while (i >= 0 && idx[i] == n - e + i) i--;
                if (i < 0) break;
                idx[i]++;
                for (int j = i + 1; j < e; j++) idx[j] = idx[j - 1] + 1;
            }
        }
    }
    for (int be : {ref::B_RS, ref::B_ISA_C, ref::B_ISA_V})
        for (int k = 1; k <= 31; k++) for (int m = 1; k + m <= 32; m++) {
            if (ref::is_isa(be) && (!isa_available() || ((k + m) % 3 && !th))) continue;
            if ((counter++ % ns) != shard) continue;
            Config g; g.backend = be; g.k = k; g.m = m; g.hd = m; g.ct = (k & 1) ? CT_CRC32 : CT_NONE;
            std::vector<int> E; uint64_t sd = 31 + counter; std::vector<bool> gone(k + m, false);
            int nd = std::min(k, (m + 1) / 2);
            while ((int)E.size() < nd) { int x = (int)(splitmix64(sd) % k); if (!gone[x]) { gone[x] = true; E.push_back(x); } }
            while ((int)E.size() < m) { int x = k + (int)(splitmix64(sd) % m); if (!gone[x]) { gone[x] = true; E.push_back(x); } }
            std::sort(E.begin(), E.end());
            emit(g, E, counter % 3);
        }
    stats().exhaustive = true;
    stats().extra["xor_tables"] = ref::N_XOR_SHAPES;
}
static Result run_c14(const Case &c) { return run_history(c, MODE_C14); }
static Result run_c15(const Case &c) { return run_history(c, MODE_C15); }
static Result run_c16(const Case &c) { return run_history(c, MODE_C16); }

static Case gen_history(int mode) {
    Case c;
    int maxlen = (int)opts().geti("maxlen", mode == MODE_C16 ? 300 : (opts().tier == "thorough" ? 200 : 60));
    int len = (int)pick(1, maxlen);
    if (coin(2, 3)) len = (int)pick(1, std::min(maxlen, 25));
    std::vector<int> wts;
    if (mode == MODE_C14) wts = {8, 2, 5, 2, 4, 2, 1, 0, 0, 0, 0, 0, 1, 2, 0, 0, 2, 2, 0, 0};
    else if (mode == MODE_C15) wts = {5, 1, 2, 1, 6, 0, 0, 1, 1, 1, 3, 3, 3, 0, 0, 1, 1, 1, 1, 0};
    else wts = {6, 2, 4, 2, 5, 2, 0, 3, 3, 3, 2, 1, 3, 1, 3, 2, 2, 2, 3, 2};
    int tot = 0; for (int x : wts) tot += x;
    auto ops = *rc::gen::resize(len, rc::gen::container<std::vector<std::tuple<int, int, int>>>(
        rc::gen::tuple(rc::gen::resize(100, rc::gen::inRange(0, tot)), rc::gen::resize(100, rc::gen::inRange(0, 1 << 12)), rc::gen::resize(100, rc::gen::inRange(0, 1 << 12)))));
    std::vector<int64_t> flat;
    for (auto &t3 : ops) {
        int r = std::get<0>(t3), op = 0;
        for (size_t i = 0; i < wts.size(); i++) { if (r < wts[i]) { op = (int)i; break; } r -= wts[i]; }
        flat.push_back(op); flat.push_back(std::get<1>(t3)); flat.push_back(std::get<2>(t3));
    }
    c.setl("ops", flat);
    // where the descriptor counter stands at the start of the history: 0, just below INT_MAX, just below a
    // power of two, or anywhere in the first thousand (descriptor values are part of the input space)
    int64_t sc = 0;
    if (mode == MODE_C14 || coin(1, 3)) switch (weighted({4, 2, 3, 3})) {
        case 1: sc = INT_MAX - pick(0, 6); break;
        case 2: sc = ((int64_t)1 << pick(1, 30)) - pick(0, 5); break;
        case 3: sc = pick(0, 1000); break;
        default: sc = 0;
    }
    c.set("start_counter", std::max<int64_t>(0, sc));
    c.set("salt", pick(0, 1 << 16));
    return c;
}

// bounded exhaustive: all sequences over a small alphabet up to the given depth (3 slots used)
static void sweep_c14() {
    int depth = (int)opts().geti("depth", opts().tier == "thorough" ? 6 : 5);
    struct Sym { int op, a, b; };
    std::vector<Sym> alpha = {{OP_CREATE, 0, 1}, {OP_CREATE, 1, 0}, {OP_CREATE, 2, 0}, {OP_CREATE_FAIL, 0, 0}, {OP_DESTROY, 0, 0}, {OP_DESTROY, 1, 0},
                              {OP_DESTROY, 2, 0}, {OP_DESTROY_DEAD, 0, 0}, {OP_USE, 0, 3}, {OP_USE, 1, 4}, {OP_USE, 2, 5}, {OP_CREATE, 8, 1}, {OP_ZPAR, 3, 0}};
    int A = (int)alpha.size();
    int shard = (int)opts().shard, ns = (int)opts().nshards;
    uint64_t total = 1;
    for (int i = 0; i < depth; i++) total *= A;
    for (uint64_t code = 0; code < total; code++) {
        if ((int)(code % ns) != shard) continue;
        std::vector<int64_t> flat; uint64_t x = code;
        for (int i = 0; i < depth; i++) { const Sym &s = alpha[x % A]; x /= A; flat.push_back(s.op); flat.push_back(s.a); flat.push_back(s.b); }
        static const int64_t starts[] = {0, INT_MAX - 1, 61, 62, 126, 254, 65534, 0};
        Case c; c.setl("ops", flat); c.set("start_counter", starts[code % 8]); c.set("salt", 0);
        sweep_case(c, run_c14);
    }
    stats().exhaustive = true;
    stats().extra["depth"] = depth; stats().extra["alphabet"] = A;
}
// C16 sweep: cleanup pairs for every shape once
static Result run_c16_pair(const Case &c) {
    Result r;
    Config g = cfg_from(c);
    if (ref::is_isa(g.backend) && !isa_available()) { r.skipped = true; return r; }
    {
        Instance in(g);
        if (!in.ok()) { r.fail("create refused"); return r; }
        std::vector<uint8_t> data = data_for(g, (int)c.get("salt"));
        Stripe s = encode(in.desc, g, data);
        if (s.rc != 0 || s.cleanup_rc != 0) r.fail("encode/encode_cleanup failed");
        if (g.backend != ref::B_NULL && s.rc == 0) {
            std::vector<const std::vector<uint8_t> *> frs;
            for (int i = 1; i < g.n(); i++) frs.push_back(&s.frags[i]);
            FragSet fs; fs.build(frs, {3});
            DecodeOut d = decode(in.desc, fs, s.fraglen, 0);
            if (d.rc == 0 && (d.out != data || d.cleanup_rc != 0)) r.fail("decode/decode_cleanup wrong");
        }
    }
    if (__lsan_do_recoverable_leak_check() != 0 && (r.fatal = true)) r.fail("LeakSanitizer: leak after encode/decode + cleanup + destroy for this shape");
    r.nontrivial = true;
    return r;
}
static void sweep_c16() {
    int shard = (int)opts().shard, ns = (int)opts().nshards, counter = 0;
    auto one = [&](Config g) { if ((counter++ % ns) != shard) return; Case c; cfg_to(c, g); c.set("salt", counter % 50); sweep_case(c, run_c16_pair); };
    for (int be : {ref::B_RS, ref::B_ISA_V, ref::B_ISA_C, ref::B_NULL})
        for (int k = 1; k <= 31; k++) for (int m = 1; k + m <= 32; m++) {
            if (be != ref::B_RS && ((k * 5 + m) % 4) && opts().tier != "thorough") continue;
            Config g; g.backend = be; g.k = k; g.m = m; g.hd = m; g.ct = (k & 1) ? CT_CRC32 : CT_NONE; one(g);
        }
    for (int i = 0; i < ref::N_XOR_SHAPES; i++) { Config g; g.backend = ref::B_XOR; g.k = ref::XOR_SHAPES[i].k; g.m = ref::XOR_SHAPES[i].m; g.hd = ref::XOR_SHAPES[i].hd; g.ct = CT_CRC32; one(g); }
    stats().exhaustive = true;
}

#ifndef HARNESS_NO_MAIN
int main(int argc, char **argv) {
    Harness h;
    h.prop = "C14";
    h.mode("c14", [] { rc_property("C14 registry model", [] { return gen_history(MODE_C14); }, run_c14); }, run_c14);
    h.mode("c14_noq", [] { rc_property("C14 registry histories (allocator re-uses freed blocks at once)", [] { return gen_history(MODE_C14); }, run_c14); }, run_c14);
    h.mode("c16_noq", [] { rc_property("C16 histories (allocator re-uses freed blocks at once)", [] { return gen_history(MODE_C16); }, run_c16); }, run_c16);
    h.mode("c14_exhaustive", sweep_c14, run_c14);
    h.mode("c15", [] { rc_property("C15 purity", [] { return gen_history(MODE_C15); }, run_c15); }, run_c15);
    h.mode("c15_guard_sweep", sweep_c15_guard, run_c15_guard);
    h.mode("c16", [] { rc_property("C16 histories", [] { return gen_history(MODE_C16); }, run_c16); }, run_c16);
    h.mode("c16_pairs", sweep_c16, run_c16_pair);
    return harness_main(argc, argv, h);
}
#endif
