// C06: fragments_needed returns a usable, sufficient, in-range set or an error
#include "lib.hpp"
using namespace fw;
using namespace lib;

// cache of one stripe per configuration (payloads are needed for the sufficiency check)
struct Ctx { Config g; std::unique_ptr<Instance> in; Stripe s; };
static Ctx &ctx_for(const Config &g, std::string &err) {
    static std::unique_ptr<Ctx> cur;
    if (cur && cur->g.backend == g.backend && cur->g.k == g.k && cur->g.m == g.m && cur->g.hd == g.hd && cur->g.w == g.w && cur->g.ct == g.ct) return *cur;
    cur.reset(new Ctx);
    cur->g = g;
    cur->in.reset(new Instance(g));
    if (!cur->in->ok()) { err = "create refused rc=" + std::to_string(cur->in->desc); return *cur; }
    std::vector<uint8_t> data((size_t)g.k * ref::word_bytes(g) * 3 + 1);
    uint64_t sd = 4242 + g.k * 100 + g.m;
    for (auto &b : data) b = (uint8_t)splitmix64(sd);
    cur->s = encode(cur->in->desc, g, data);
    if (cur->s.rc != 0) err = "encode failed";
    return *cur;
}

// GF(2): express target as XOR of a subset of vectors; returns false if not in span
static bool solve_gf2(const std::vector<uint64_t> &vecs, uint64_t target, uint64_t &combo) {
    std::vector<uint64_t> v = vecs, tag(vecs.size());
    for (size_t i = 0; i < v.size(); i++) tag[i] = 1ull << i;
    uint64_t t = target, tt = 0;
    size_t r = 0;
    for (int bit = 0; bit < 64; bit++) {
        size_t piv = r;
        while (piv < v.size() && !(v[piv] >> bit & 1)) piv++;
        if (piv == v.size()) continue;
        std::swap(v[r], v[piv]); std::swap(tag[r], tag[piv]);
        for (size_t i = 0; i < v.size(); i++) if (i != r && (v[i] >> bit & 1)) { v[i] ^= v[r]; tag[i] ^= tag[r]; }
        if (t >> bit & 1) { t ^= v[r]; tt ^= tag[r]; }
        r++;
    }
    combo = tt;
    return t == 0;
}

static Result run_c06(const Case &c) {
    Result r;
    Config g = cfg_from(c);
    if (ref::is_isa(g.backend) && !isa_available()) { r.skipped = true; return r; }
    std::string err;
    Ctx &cx = ctx_for(g, err);
    if (!err.empty()) { r.fail(err); return r; }
    int n = g.n(), t = ref::tolerance(g);
    std::vector<int> R = c.ints("R"), X = c.ints("X");
    uint64_t rm = 0, xm = 0;
    for (int x : R) rm |= 1ull << x;
    for (int x : X) xm |= 1ull << x;
    bool within = (int)(R.size() + X.size()) <= t;
    // exact-size inputs and output (what test/ allocates: n ints)
    // overlap (matrix codes only - they work on the union of the two lists; the flat-XOR planner counts entries): the
    // exclude list as PASSED also names a fragment that is to be rebuilt (as the repository's own test does) and/or
    // repeats one of its entries; the sets R and X, and with them the oracle, stay what they are
    std::vector<int> Xpass = X;
    int overlap = g.backend == ref::B_XOR ? 0 : (int)c.get("overlap", 0);
    if (overlap & 1) Xpass.insert(Xpass.begin() + (overlap >> 2) % (Xpass.size() + 1), R[(overlap >> 4) % R.size()]);
    if ((overlap & 2) && !X.empty()) Xpass.push_back(X[(overlap >> 4) % X.size()]);
    if (overlap && Xpass.size() != X.size()) r.cls("exclude_list_overlaps_or_repeats");
    int *rl = (int *)malloc(sizeof(int) * (R.size() + 1)), *xl = (int *)malloc(sizeof(int) * (Xpass.size() + 1));
    for (size_t i = 0; i < R.size(); i++) rl[i] = R[i];
    rl[R.size()] = -1;
    for (size_t i = 0; i < Xpass.size(); i++) xl[i] = Xpass[i];
    xl[Xpass.size()] = -1;
    const int SENT = 0x5a5a5a5a;
    int *out = (int *)malloc(sizeof(int) * n);
    for (int i = 0; i < n; i++) out[i] = SENT;
    // the answer belongs to THIS descriptor: another instance of the same back end (other table / boundary shape)
    // created after it - alive or already destroyed again at the time of the query - changes nothing
    std::unique_ptr<Instance> sib;
    if (c.get("sib", -1) >= 0) { sib = make_sibling(g, (int)c.get("sib"), r); if (!c.get("sib_keep", 0)) sib.reset(); }
    // a query answered just before on the same descriptor (same first index and same union of the two lists, split
    // differently between rebuild and exclude) changes nothing
    if (int pq = (int)c.get("prevq", 0)) {
        std::vector<int> pr, px;
        std::vector<int> uni(R.begin(), R.end()); uni.insert(uni.end(), X.begin(), X.end());
        switch (pq) {
        case 1: pr = {R[0]}; px.assign(uni.begin() + 1, uni.end()); break;                 // only the first one to rebuild, the rest excluded
        case 2: pr = uni; break;                                                          // everything to rebuild
        case 3: pr.assign(R.rbegin(), R.rend()); px.assign(X.rbegin(), X.rend()); break;   // same split, reversed lists
        default: pr = {uni.back()}; px.assign(uni.begin(), uni.end() - 1); break;
        }
        pr.push_back(-1); px.push_back(-1);
        std::vector<int> po(n + 1, -1);
        int *prl = (int *)malloc(sizeof(int) * pr.size()), *pxl = (int *)malloc(sizeof(int) * px.size()), *pol = (int *)malloc(sizeof(int) * n);
        memcpy(prl, pr.data(), sizeof(int) * pr.size()); memcpy(pxl, px.data(), sizeof(int) * px.size());
        for (int i = 0; i < n; i++) pol[i] = -1;
        liberasurecode_fragments_needed(cx.in->desc, prl, pxl, pol);
        free(prl); free(pxl); free(pol);
        r.cls("previous_query_same_union");
    }
    errno = (int)c.get("errno_in", 0);          // what an earlier, unrelated call on this thread may have left behind
    int rc = liberasurecode_fragments_needed(cx.in->desc, rl, xl, out);
    errno = 0;
    sib.reset();
    for (size_t i = 0; i < R.size(); i++) if (rl[i] != R[i]) r.fail("fragments_to_reconstruct list modified");
    for (size_t i = 0; i < Xpass.size(); i++) if (xl[i] != Xpass[i]) r.fail("fragments_to_exclude list modified");
    std::vector<int> N;
    bool terminated = false;
    for (int i = 0; i < n; i++) { if (out[i] == -1) { terminated = true; break; } N.push_back(out[i]); }
    free(rl); free(xl); free(out);
    r.cls(std::string("be_") + be_name(g.backend));
    r.cls(within ? "within_tolerance" : "beyond_tolerance");
    r.cls(rc == 0 ? "rc_ok" : "rc_err");
    if (rc > 0) { r.fail("positive return code " + std::to_string(rc)); return r; }
    if (rc < 0) {
        if (within) r.fail("fragments_needed failed rc=" + std::to_string(rc) + " although |R|+|X|=" + std::to_string(R.size() + X.size()) + " is within tolerance " + std::to_string(t));
        return r;
    }
    // rc == 0: the list must be valid and sufficient, within tolerance or not
    auto bad = [&](const std::string &m) { r.fail("rc=0 but " + m + (within ? "" : " (request beyond tolerance: an error was the alternative)")); };
    if (!terminated) { bad("the list is not -1 terminated within k+m entries"); return r; }
    uint64_t nm = 0;
    for (int x : N) {
        if (x < 0 || x >= n) { bad("index " + std::to_string(x) + " outside 0..k+m-1"); return r; }
        if (nm >> x & 1) { bad("index " + std::to_string(x) + " listed twice"); return r; }
        nm |= 1ull << x;
    }
    if (nm & rm) { bad("the list contains a fragment that is to be reconstructed (" + std::to_string(__builtin_ctzll(nm & rm)) + ")"); return r; }
    if (nm & xm) { bad("the list contains an excluded fragment (" + std::to_string(__builtin_ctzll(nm & xm)) + ")"); return r; }
    if (g.backend == ref::B_XOR) {
        const ref::XorShape *sh = ref::xor_shape(g.k, g.m, g.hd);
        std::vector<uint64_t> cols;
        for (int x : N) cols.push_back(ref::xor_column(sh, x));
        size_t bs = cx.s.fraglen - 80;
        for (int x : R) {
            uint64_t combo = 0;
            if (!solve_gf2(cols, ref::xor_column(sh, x), combo)) { bad("fragment " + std::to_string(x) + " is not in the span of the returned fragments"); return r; }
            std::vector<uint8_t> acc(bs, 0);
            for (size_t i = 0; i < N.size(); i++) if (combo >> i & 1) for (size_t b = 0; b < bs; b++) acc[b] ^= cx.s.frags[N[i]][80 + b];
            if (memcmp(acc.data(), cx.s.frags[x].data() + 80, bs) != 0) { bad("XOR of the returned fragments' payloads does not reproduce fragment " + std::to_string(x)); return r; }
        }
    } else {
        if ((int)N.size() != g.k) { bad("the list has " + std::to_string(N.size()) + " entries, expected exactly k=" + std::to_string(g.k)); return r; }
        bool demand = !(g.backend == ref::B_ISA_V && !ref::isa_first_k_invertible(g, nm));
        std::vector<const std::vector<uint8_t> *> frs;
        for (int x : N) frs.push_back(&cx.s.frags[x]);
        for (int x : R) {
            FragSet fs; fs.build(frs, {});
            ReconOut o = reconstruct(cx.in->desc, fs, cx.s.fraglen, x);
            if (o.rc == 0) { if (o.out != cx.s.frags[x]) { bad("reconstructing " + std::to_string(x) + " from only the returned fragments gives different bytes"); return r; } }
            else if (demand) { bad("reconstructing " + std::to_string(x) + " from only the returned fragments fails rc=" + std::to_string(o.rc)); return r; }
        }
    }
    return r;
}
// non-trivial: X intersects the unconstrained answer, or |R| >= 2
static Result run_c06_nt(const Case &c) {
    Result r = run_c06(c);
    std::vector<int> R = c.ints("R"), X = c.ints("X");
    bool nt = R.size() >= 2;
    if (!nt && !X.empty() && !r.skipped) {
        Config g = cfg_from(c);
        std::string err;
        Ctx &cx = ctx_for(g, err);
        if (err.empty()) {
            int n = g.n();
            std::vector<int> rl(R.begin(), R.end()); rl.push_back(-1);
            int xl[1] = {-1};
            std::vector<int> out(n + 64, -1);      // generous: this call is only a classifier
            if (liberasurecode_fragments_needed(cx.in->desc, rl.data(), xl, out.data()) == 0)
                for (int i = 0; i < n && out[i] >= 0; i++) for (int x : X) if (out[i] == x) nt = true;
        }
    }
    r.nontrivial = nt;
    if (nt) r.cls("nontrivial");
    return r;
}

static void emit(const Config &g, const std::vector<int> &R, const std::vector<int> &X) {
    Case c; cfg_to(c, g); c.setv("R", R); c.setv("X", X);
    static int emitted = 0;
    if ((++emitted % 4) == 0) { c.set("sib", emitted / 4 * 8 + (emitted / 4) % 8); c.set("sib_keep", (emitted / 4) & 1); }
    if ((emitted % 3) == 1) c.set("prevq", 1 + (emitted / 3) % 4);
    if ((emitted % 5) >= 3) c.set("overlap", 1 + emitted % 255);
    if ((emitted % 7) == 2) c.set("errno_in", (emitted % 14 == 2) ? 12 : 22);
    sweep_case(c, run_c06_nt);
}
// all disjoint (R != {}, X) with |R|+|X| <= limit, both list orders
static void enum_pairs(const Config &g, int limit, int &counter) {
    int n = g.n(), shard = (int)opts().shard, ns = (int)opts().nshards;
    for (int tot = 1; tot <= limit; tot++) {
        std::vector<int> idx(tot);
        for (int i = 0; i < tot; i++) idx[i] = i;
        if (tot > n) break;
        for (;;) {
            // split idx into R (non-empty) and X in all ways
            for (uint32_t split = 1; split < (1u << tot); split++) {
                if ((counter++ % ns) != shard) continue;
                std::vector<int> R, X;
                for (int i = 0; i < tot; i++) (split >> i & 1 ? R : X).push_back(idx[i]);
                emit(g, R, X);
                if (R.size() + X.size() >= 2) { std::reverse(R.begin(), R.end()); std::reverse(X.begin(), X.end()); emit(g, R, X); }
            }
            int i = tot - 1;
            while (i >= 0 && idx[i] == n - tot + i) i--;
            if (i < 0) break;
            idx[i]++;
            for (int j = i + 1; j < tot; j++) idx[j] = idx[j - 1] + 1;
        }
    }
}
static void sweep_xor() {
    int counter = 0;
    for (int i = 0; i < ref::N_XOR_SHAPES; i++) {
        Config g; g.backend = ref::B_XOR; g.k = ref::XOR_SHAPES[i].k; g.m = ref::XOR_SHAPES[i].m; g.hd = ref::XOR_SHAPES[i].hd; g.ct = CT_NONE;
        enum_pairs(g, g.hd - 1, counter);
    }
    stats().exhaustive = true;
    stats().extra["xor_tables"] = ref::N_XOR_SHAPES;
}
static void sweep_rs() {
    int counter = 0;
    int maxn = (int)opts().geti("maxn", opts().tier == "thorough" ? 12 : 8);
    bool only_isa = opts().geti("only_isa", 0) != 0;
    if (only_isa) maxn += 2;
    for (int be : {ref::B_RS, ref::B_ISA_V, ref::B_ISA_C}) {
        if (ref::is_isa(be) && !isa_available()) continue;
        if (only_isa && !ref::is_isa(be)) continue;
        int lim = ref::is_isa(be) ? maxn - 2 : maxn;
        for (int k = 1; k < lim; k++) for (int m = 1; k + m <= lim; m++) {
            Config g; g.backend = be; g.k = k; g.m = m; g.hd = m; g.ct = CT_NONE;
            enum_pairs(g, m, counter);
        }
    }
    stats().exhaustive = true;
    stats().extra["rs_max_n"] = maxn;
}
static Case gen_c06() {
    Case c;
    Config g = gen_config(G_REAL);
    g.ct = CT_NONE; g.w = 0;
    cfg_to(c, g);
    int n = g.n(), t = ref::tolerance(g);
    int tot;
    switch (weighted({5, 3, 2})) {
    case 0: tot = (int)pick(1, std::max(1, t)); break;                    // within
    case 1: tot = std::min(n, t + (int)pick(1, 2)); break;                // just beyond
    default: tot = (int)pick(1, n); break;
    }
    tot = std::max(1, std::min(tot, n));
    std::vector<int> all(n);
    for (int i = 0; i < n; i++) all[i] = i;
    for (int i = 0; i < tot; i++) std::swap(all[i], all[pick(i, n - 1)]);
    int nr = (int)pick(1, tot);
    if (coin(2, 3)) nr = std::min(tot, weighted({0, 5, 3, 2}));
    nr = std::max(1, nr);
    std::vector<int> R(all.begin(), all.begin() + nr), X(all.begin() + nr, all.begin() + tot);
    c.setv("R", R); c.setv("X", X);
    if (coin(1, 3)) { c.set("sib", pick(0, 1 << 12)); c.set("sib_keep", coin() ? 1 : 0); }
    if (coin(1, 3)) c.set("prevq", pick(1, 4));
    if (coin(1, 3)) c.set("overlap", pick(1, 255));
    if (coin(1, 4)) { static const int es[] = {12 /* ENOMEM */, 22 /* EINVAL */, 34 /* ERANGE */, 2 /* ENOENT */, 11 /* EAGAIN */, 4 /* EINTR */}; c.set("errno_in", es[pick(0, 5)]); }
    return c;
}

int main(int argc, char **argv) {
    Harness h;
    h.prop = "C06";
    h.mode("c06", [] { rc_property("C06 fragments needed", gen_c06, run_c06_nt); }, run_c06_nt);
    h.mode("c06_xor_sweep", sweep_xor, run_c06_nt);
    h.mode("c06_rs_sweep", sweep_rs, run_c06_nt);
    return harness_main(argc, argv, h);
}
