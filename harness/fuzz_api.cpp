// libFuzzer target for C02 / C14 / C16: bytes -> (codec case | API history) -> same oracles as h_codec / h_state.
#define HARNESS_NO_MAIN
#include "h_state.cpp"
#include <fuzzer/FuzzedDataProvider.h>
#include <dlfcn.h>

// the C02 oracle lives in h_codec.cpp; re-implementing it here would fork the oracle, so this target
// restricts itself to histories (C14/C16 op sets include beyond-tolerance decode/reconstruct with the
// exact-or-error oracle of C02)
static std::string g_prop = "C16";
extern "C" int LLVMFuzzerInitialize(int *argc, char ***argv) {
    (void)argc; (void)argv;
    for (const char *so : {"libXorcode.so.1", "liberasurecode_rs_vand.so.1", "libnullcode.so.1", "libisal.so.2"}) dlopen(so, RTLD_NOW | RTLD_GLOBAL);
    if (const char *p = getenv("VERIF_FUZZ_PROP")) g_prop = p;
    Stats &s = stats();
    s.prop = g_prop;
    if (const char *fd = getenv("VERIF_FAILDIR")) s.faildir = fd;
    unsetenv("LIBERASURECODE_WRITE_LEGACY_CRC");
    g_explicit_lsan = false;     // libFuzzer's own per-iteration leak detection (-detect_leaks=1) takes over
    return 0;
}
extern "C" int LLVMFuzzerTestOneInput(const uint8_t *data, size_t size) {
    FuzzedDataProvider f(data, size);
    Case c;
    int mode = g_prop == "C14" ? MODE_C14 : g_prop == "C15" ? MODE_C15 : MODE_C16;
    c.set("start_counter", (mode == MODE_C14 && f.ConsumeBool()) ? INT_MAX - f.ConsumeIntegralInRange<int>(0, 6) : 0);
    c.set("salt", f.ConsumeIntegral<uint16_t>());
    std::vector<int64_t> ops;
    while (f.remaining_bytes() >= 4 && ops.size() < 3 * 120) {
        int op = f.ConsumeIntegralInRange<int>(0, OP_NOPS - 1);
        if (mode != MODE_C14 && op == OP_PRESET) op = OP_USE;
        ops.push_back(op); ops.push_back(f.ConsumeIntegral<uint16_t>() & 0xfff); ops.push_back(f.ConsumeIntegral<uint8_t>() | ((int)f.ConsumeIntegral<uint8_t>() << 4));
    }
    c.setl("ops", ops);
    Result r = run_history(c, mode);     // resets the exported descriptor counter and destroys every instance it created
    Stats &s = stats();
    if (!r.ok) {
        s.mode = mode == MODE_C14 ? "c14" : mode == MODE_C15 ? "c15" : "c16";
        s.save_failure(c.text(), r.msg);
        __builtin_trap();
    }
    return 0;
}
