// C04 (RS-Vandermonde canonical MDS code), C05 (flat-XOR tables), C07 (wire format), C08 (sizes)
#include "lib.hpp"
#include <dlfcn.h>
#include <pthread.h>
using namespace fw;
using namespace lib;

// ============================================================================================ C07
static Result run_c07(const Case &c) {
    Result r;
    Config g = cfg_from(c);
    if (ref::is_isa(g.backend) && !isa_available()) { r.skipped = true; return r; }
    std::vector<uint8_t> data = expand_buffer(c, "data");
    int legacy = (int)c.get("legacy");
    if (legacy) setenv("LIBERASURECODE_WRITE_LEGACY_CRC", "1", 1); else unsetenv("LIBERASURECODE_WRITE_LEGACY_CRC");
    null_arg1() = (uint64_t)c.get("null_arg1", 0);
    if (null_arg1() && g.backend == ref::B_NULL) r.cls("null_private_argument_set");
    Instance in(g);
    null_arg1() = 0;
    if (!in.ok()) { unsetenv("LIBERASURECODE_WRITE_LEGACY_CRC"); r.fail("create refused rc=" + std::to_string(in.desc)); return r; }
    // "pure function of (configuration, data)": also of nothing the descriptor did before
    unsetenv("LIBERASURECODE_WRITE_LEGACY_CRC");       // (the earlier calls run with the switch off: their expected outputs are the standard ones)
    std::vector<std::unique_ptr<Instance>> keep;          // siblings that stay alive across the encode
    prehistory(in.desc, g, c.ints("hist"), r, &keep);
    if (!r.ok) return r;
    if (legacy) setenv("LIBERASURECODE_WRITE_LEGACY_CRC", "1", 1);
    Stripe s = encode(in.desc, g, data);
    unsetenv("LIBERASURECODE_WRITE_LEGACY_CRC");
    if (s.rc != 0) { r.fail("encode failed rc=" + std::to_string(s.rc)); return r; }
    uint32_t ver = liberasurecode_get_version();
    if (ver < ref::V120) r.fail("library version below 1.2.0: metadata checksums would not be verified");
    auto want = ref::serialize_stripe(g, data.data(), data.size(), ver, legacy != 0);
    uint64_t bs = ref::block_size(g, data.size());
    if (s.fraglen != bs + 80) r.fail("fragment_len " + std::to_string(s.fraglen) + " != 80 + " + std::to_string(bs));
    if ((int)s.frags.size() != g.n()) { r.fail("fragment count"); return r; }
    for (int i = 0; i < g.n(); i++) {
        if (s.frags[i].size() != s.fraglen) r.fail("fragment " + std::to_string(i) + " length differs");
        if (s.frags[i] != want[i]) {
            std::string d = first_diff(s.frags[i], want[i]);
            r.fail("fragment " + std::to_string(i) + " differs from the reference serializer: " + d + " (library vs reference)");
            break;
        }
    }
    bool distinct2 = !buffer_is_constant(data) && data.size() >= 2;
    r.cls(std::string("be_") + be_name(g.backend));
    if (legacy) r.cls("legacy_crc");
    if (g.ct == CT_CRC32) r.cls("crc32");
    if (data.size() % ((size_t)g.k * ref::word_bytes(g))) r.cls("len_not_multiple");
    if (data.empty()) r.cls("len0");
    r.nontrivial = g.ct == CT_CRC32 && (data.size() % ((size_t)g.k * ref::word_bytes(g))) != 0 && distinct2;
    return r;
}
static Case gen_c07() {
    Case c;
    Config g = gen_config(G_ALL);
    if (coin(1, 12)) g.ct = CT_MD5;
    cfg_to(c, g);
    size_t cap = opts().tier == "thorough" ? (1 << 20) : (1 << 18);
    gen_buffer(c, "data", gen_length(g, cap));
    c.set("legacy", coin(1, 4) ? 1 : 0);
    if (coin()) c.setv("hist", gen_prehistory());
    if (g.backend == ref::B_NULL && coin()) c.set("null_arg1", coin() ? 11 : pick(1, 1 << 20));
    return c;
}
// every back end, every shape once
static void sweep_c07() {
    int shard = (int)opts().shard, ns = (int)opts().nshards, counter = 0;
    auto one = [&](Config g) {
        if ((counter++ % ns) != shard) return;
        if (ref::is_isa(g.backend) && !isa_available()) return;
        Case c; cfg_to(c, g);
        size_t unit = (size_t)g.k * ref::word_bytes(g);
        c.set("data_cls", BUF_RANDOM); c.set("data_seed", 300 + counter); c.set("data_len", (int64_t)(unit * 2 + (counter % 3)));
        c.set("legacy", (counter / 2) & 1);
        if (g.backend == ref::B_NULL && (counter & 1)) c.set("null_arg1", 11);
        sweep_case(c, run_c07);
    };
    for (int be : {ref::B_RS, ref::B_ISA_V, ref::B_ISA_C, ref::B_NULL})
        for (int k = 1; k <= 31; k++) for (int m = 1; k + m <= 32; m++) {
            Config g; g.backend = be; g.k = k; g.m = m; g.hd = m; g.w = 0; g.ct = ((k + m) & 1) ? CT_CRC32 : CT_NONE; one(g);
        }
    for (int i = 0; i < ref::N_XOR_SHAPES; i++) for (int ct : {CT_NONE, CT_CRC32}) {
        Config g; g.backend = ref::B_XOR; g.k = ref::XOR_SHAPES[i].k; g.m = ref::XOR_SHAPES[i].m; g.hd = ref::XOR_SHAPES[i].hd; g.ct = ct; one(g);
    }
    stats().exhaustive = true;
    stats().extra["shapes_per_rs_like_backend"] = 496;
}

// ============================================================================================ C08
static Result run_c08(const Case &c) {
    Result r;
    Config g = cfg_from(c);
    if (ref::is_isa(g.backend) && !isa_available()) { r.skipped = true; return r; }
    uint64_t len = (uint64_t)c.get("len");
    // where the descriptor counter stands (descriptor values are input too): with wrap=1 the instance under test is
    // created just below INT_MAX and a second create then wraps the counter while the first stays live
    next_backend_desc = (int)c.get("counter", 0);
    Instance in(g);
    if (!in.ok()) { r.fail("create refused rc=" + std::to_string(in.desc)); return r; }
    std::unique_ptr<Instance> after_wrap;
    if (c.get("wrap")) { Config g2 = g; if (g2.backend != ref::B_XOR) { g2.k = 2; g2.m = 1; g2.hd = 1; } after_wrap.reset(new Instance(g2)); r.cls("counter_wrapped_while_live"); }
    // other instances come and go while this one lives (descriptor values far apart, registry order changes)
    int churn = (int)c.get("churn", 0);
    if (churn > 0) {
        Config g3 = g; if (g3.backend != ref::B_XOR) { g3.k = 2; g3.m = 1; g3.hd = 1; }
        std::vector<int> live;
        for (int i = 0; i < churn; i++) {
            int d3 = create(g3);
            if (d3 <= 0) { r.fail("create number " + std::to_string(i) + " while another instance lives failed rc=" + std::to_string(d3)); break; }
            if (d3 == in.desc) r.fail("create returned the descriptor of a live instance");
            live.push_back(d3);
            if ((i % 3) != 2 || i + 1 == churn) { liberasurecode_instance_destroy(live.back()); live.pop_back(); }
        }
        while (!live.empty()) { liberasurecode_instance_destroy(live.back()); live.pop_back(); }
        r.cls("churn_" + std::to_string(churn >= 64 ? 64 : churn >= 8 ? 8 : 1) + "plus");
    }
    // destroys that fail (unknown, negative or already destroyed descriptors) happen in real programs; they change nothing
    int bad_destroys = (int)c.get("bad_destroys", 0);
    for (int i = 0; i < bad_destroys; i++) {
        int victim = i % 3 == 0 ? -1 - i : i % 3 == 1 ? (in.desc > INT32_MAX - 5000 ? in.desc - 4321 - i : in.desc + 4321 + i) : 0;
        if (after_wrap && victim == after_wrap->desc) victim = -7;
        if (liberasurecode_instance_destroy(victim) >= 0) r.fail("destroy of unknown descriptor " + std::to_string(victim) + " succeeded");
    }
    if (bad_destroys) r.cls("failed_destroys_before_queries");
    uint64_t unit = (uint64_t)g.k * ref::word_bytes(g);
    int fs = liberasurecode_get_fragment_size(in.desc, (int)len);
    int al = liberasurecode_get_aligned_data_size(in.desc, len);
    int mn = liberasurecode_get_minimum_encode_size(in.desc);
    uint64_t want_al = ref::aligned_size(g, len);
    if ((uint64_t)al != want_al) r.fail("aligned_data_size(" + std::to_string(len) + ")=" + std::to_string(al) + " expected " + std::to_string(want_al));
    if ((uint64_t)mn != unit) r.fail("minimum_encode_size=" + std::to_string(mn) + " expected k*wordsize=" + std::to_string(unit));
    if (mn != liberasurecode_get_aligned_data_size(in.desc, 1)) r.fail("minimum_encode_size != aligned_data_size(1)");
    if (c.get("encode", 1)) {
        std::vector<uint8_t> data(len);
        uint64_t sd = (uint64_t)c.get("seed");
        for (auto &b : data) b = (uint8_t)splitmix64(sd);
        Stripe s = encode(in.desc, g, data);
        if (s.rc != 0) { r.fail("encode failed rc=" + std::to_string(s.rc)); return r; }
        if ((uint64_t)fs + 80 != s.fraglen) r.fail("get_fragment_size(" + std::to_string(len) + ")+80=" + std::to_string(fs + 80) + " but encode produced fragment_len " + std::to_string(s.fraglen));
        for (int i = 0; i < g.n(); i++) {
            if (s.frags[i].size() != s.fraglen) r.fail("fragment length mismatch");
            if (ref::get32(&s.frags[i][ref::O_SIZE]) != s.fraglen - 80) r.fail("header size field != fragment_len-80");
        }
    } else {
        if ((uint64_t)fs != want_al / g.k) r.fail("get_fragment_size=" + std::to_string(fs) + " expected " + std::to_string(want_al / g.k));
    }
    // unknown descriptors
    int d = in.desc;
    liberasurecode_instance_destroy(d);
    in.desc = -1;
    int never = d > INT32_MAX - 7919 ? d - 7919 : d + 7919;       // a descriptor that was never issued (no overflow at the top of the range)
    if (after_wrap && never == after_wrap->desc) never = d - 3;
    for (int bad : {d, never, -1, 0, -d, INT32_MIN, (d == INT32_MAX || (after_wrap && after_wrap->desc == INT32_MAX)) ? -2 : INT32_MAX}) {
        if (liberasurecode_get_fragment_size(bad, (int)len) >= 0) r.fail("get_fragment_size accepted unknown descriptor " + std::to_string(bad));
        if (liberasurecode_get_aligned_data_size(bad, len) >= 0) r.fail("get_aligned_data_size accepted unknown descriptor " + std::to_string(bad));
        if (liberasurecode_get_minimum_encode_size(bad) >= 0) r.fail("get_minimum_encode_size accepted unknown descriptor " + std::to_string(bad));
    }
    r.cls(std::string("be_") + be_name(g.backend));
    r.nontrivial = unit && (len % unit) != 0;
    if (r.nontrivial) r.cls("len_not_multiple");
    return r;
}
static Case gen_c08() {
    Case c;
    Config g = gen_config(G_ALL);
    cfg_to(c, g);
    size_t cap = 1 << 20;
    size_t len = gen_length(g, cap);
    if (coin(1, 6)) { uint64_t unit = (uint64_t)g.k * ref::word_bytes(g); len = std::min<size_t>(cap, unit * (size_t)pick(1, (int64_t)(cap / unit)) + (size_t)pick(0, 2) - 1); }
    c.set("len", (int64_t)len);
    c.set("seed", (int64_t)pick_seed());
    c.set("encode", (len <= (1 << 16) || opts().tier == "thorough" || coin(1, 20)) ? 1 : 0);
    bool wrap = coin(1, 6);
    c.set("wrap", wrap ? 1 : 0);
    c.set("counter", wrap ? INT32_MAX - 1 - pick(0, 1) * 0 : (coin(1, 3) ? pick(0, 100000) : 0));
    if (coin(1, 8)) { static const int cs[] = {1, 7, 63, 64, 65, 127, 128, 129, 255, 256, 257}; c.set("churn", coin(2, 3) ? cs[pick(0, 10)] : (int)pick(1, 300)); }
    if (coin(1, 4)) c.set("bad_destroys", pick(1, 4));
    return c;
}
static void sweep_c08() {
    int shard = (int)opts().shard, ns = (int)opts().nshards, counter = 0;
    std::vector<Config> cfgs;
    for (int be : {ref::B_RS, ref::B_ISA_V, ref::B_ISA_C, ref::B_NULL})
        for (auto km : std::vector<std::pair<int, int>>{{1, 1}, {2, 1}, {3, 2}, {5, 3}, {10, 4}, {16, 16}, {31, 1}, {7, 25}}) {
            if (ref::is_isa(be) && !isa_available()) continue;
            Config g; g.backend = be; g.k = km.first; g.m = km.second; g.hd = g.m; g.ct = CT_NONE; cfgs.push_back(g);
        }
    for (int i = 0; i < ref::N_XOR_SHAPES; i += 3) { Config g; g.backend = ref::B_XOR; g.k = ref::XOR_SHAPES[i].k; g.m = ref::XOR_SHAPES[i].m; g.hd = ref::XOR_SHAPES[i].hd; g.ct = CT_CRC32; cfgs.push_back(g); }
    for (auto &g : cfgs) {
        uint64_t unit = (uint64_t)g.k * ref::word_bytes(g);
        for (uint64_t len = 0; len <= 4 * unit + 2; len++) {
            if ((counter++ % ns) != shard) continue;
            Case c; cfg_to(c, g); c.set("len", (int64_t)len); c.set("seed", (int64_t)len); c.set("encode", 1);
            sweep_case(c, run_c08);
        }
    }
    stats().exhaustive = true;
    stats().extra["configs_dense_lengths"] = (int64_t)cfgs.size();
}

// ============================================================================================ C04
typedef int *(*make_matrix_fn)(int, int);
typedef void (*free_matrix_fn)(int *);
typedef void (*init_fn)(int, int);
typedef void (*deinit_fn)(void);
struct RsPlugin {
    void *h = nullptr; make_matrix_fn make = nullptr; free_matrix_fn fr = nullptr; init_fn init = nullptr; deinit_fn deinit = nullptr;
    RsPlugin() {
        h = dlopen("liberasurecode_rs_vand.so.1", RTLD_LAZY | RTLD_LOCAL);
        if (!h) return;
        make = (make_matrix_fn)dlsym(h, "make_systematic_matrix");
        fr = (free_matrix_fn)dlsym(h, "free_systematic_matrix");
        init = (init_fn)dlsym(h, "init_liberasurecode_rs_vand");
        deinit = (deinit_fn)dlsym(h, "deinit_liberasurecode_rs_vand");
    }
    bool ok() const { return h && make && fr && init && deinit; }
    ~RsPlugin() { if (h) dlclose(h); }
};
// ref-owned log/exp tables for fast rank (built with shift/xor multiplication only)
struct FastGf16 {
    std::vector<uint16_t> lg, ex;
    FastGf16() : lg(65536, 0), ex(131072, 0) {
        uint32_t x = 1;
        for (int i = 0; i < 65535; i++) { ex[i] = (uint16_t)x; ex[i + 65535] = (uint16_t)x; lg[x] = (uint16_t)i; x = ref::gf16_mul(x, 2); }
    }
    uint32_t mul(uint32_t a, uint32_t b) const { return (a && b) ? ex[lg[a] + lg[b]] : 0; }
    uint32_t inv(uint32_t a) const { return ex[65535 - lg[a]]; }
};
static const FastGf16 &fgf() { static FastGf16 f; return f; }
static int fast_rank16(std::vector<uint32_t> a, int rows, int cols) {
    const FastGf16 &F = fgf();
    return ref::matrix_rank(std::move(a), rows, cols, [&](uint32_t x, uint32_t y) { return F.mul(x, y); }, [&](uint32_t x) { return F.inv(x); });
}
// case: k, m ; compares the library's generator with the closed form, then MDS over row subsets
static Result run_c04_matrix(const Case &c) {
    Result r;
    int k = (int)c.get("k"), m = (int)c.get("m");
    static RsPlugin pl;
    if (!pl.ok()) { r.fail("cannot load liberasurecode_rs_vand.so.1 / exported matrix functions"); return r; }
    pl.init(k, m);
    int *mat = pl.make(k, m);
    if (!mat) { pl.deinit(); r.fail("make_systematic_matrix returned NULL"); return r; }
    std::vector<uint32_t> lib_m(mat, mat + (size_t)(k + m) * k);
    pl.fr(mat);
    pl.deinit();
    std::vector<uint32_t> want = ref::rs16_generator(k, m);
    for (int row = 0; row < k + m && r.ok; row++)
        for (int col = 0; col < k; col++)
            if (lib_m[(size_t)row * k + col] != want[(size_t)row * k + col]) {
                r.fail("generator(" + std::to_string(k) + "," + std::to_string(m) + ")[" + std::to_string(row) + "][" + std::to_string(col) + "]=" +
                       std::to_string(lib_m[(size_t)row * k + col]) + " but closed form L_j(r)/L_j(k) gives " + std::to_string(want[(size_t)row * k + col]));
                break;
            }
    // first parity row is all ones
    for (int col = 0; col < k && r.ok; col++) if (lib_m[(size_t)k * k + col] != 1) r.fail("first parity row is not all ones");
    // MDS: k-subsets of the library's rows
    int n = k + m;
    int64_t budget = c.get("subsets", 2000);
    bool exhaustive = c.get("exhaustive", 0) != 0;
    uint64_t checked = 0;
    auto check_rows = [&](const std::vector<int> &rows) {
        std::vector<uint32_t> sub;
        for (int rr : rows) sub.insert(sub.end(), lib_m.begin() + (size_t)rr * k, lib_m.begin() + (size_t)(rr + 1) * k);
        checked++;
        if (fast_rank16(sub, k, k) != k) {
            std::string s;
            for (int rr : rows) s += std::to_string(rr) + " ";
            r.fail("rows {" + s + "} of generator(" + std::to_string(k) + "," + std::to_string(m) + ") are linearly dependent: not MDS");
            return false;
        }
        return true;
    };
    if (exhaustive) {
        std::vector<int> idx(k);
        for (int i = 0; i < k; i++) idx[i] = i;
        for (;;) {
            if (!check_rows(idx)) break;
            int i = k - 1;
            while (i >= 0 && idx[i] == n - k + i) i--;
            if (i < 0) break;
            idx[i]++;
            for (int j = i + 1; j < k; j++) idx[j] = idx[j - 1] + 1;
        }
    } else {
        uint64_t sd = (uint64_t)c.get("seed", 1) * 1000003 + k * 64 + m;
        for (int64_t t = 0; t < budget; t++) {
            std::vector<int> all(n);
            for (int i = 0; i < n; i++) all[i] = i;
            for (int i = 0; i < k; i++) std::swap(all[i], all[i + splitmix64(sd) % (n - i)]);
            std::vector<int> rows(all.begin(), all.begin() + k);
            std::sort(rows.begin(), rows.end());
            if (!check_rows(rows)) break;
        }
    }
    stats().extra["sum_row_subsets_checked"] += (int64_t)checked;
    r.cls(exhaustive ? "mds_exhaustive" : "mds_sampled");
    r.nontrivial = k >= 2;
    return r;
}
static void sweep_c04() {
    int shard = (int)opts().shard, ns = (int)opts().nshards, counter = 0;
    bool th = opts().tier == "thorough";
    int exh_n = th ? 16 : 12;
    // heavy shapes first so shards balance
    std::vector<std::pair<int, int>> shapes;
    for (int k = 1; k <= 31; k++) for (int m = 1; k + m <= 32; m++) shapes.push_back({k, m});
    for (auto &km : shapes) {
        if ((counter++ % ns) != shard) continue;
        Case c; c.set("k", km.first); c.set("m", km.second);
        c.set("exhaustive", km.first + km.second <= exh_n ? 1 : 0);
        c.set("subsets", th ? 20000 : 600);
        c.set("seed", opts().seed);
        sweep_case(c, run_c04_matrix);
    }
    stats().exhaustive = true;
    stats().extra["shapes"] = 496;
    stats().extra["mds_exhaustive_up_to_n"] = exh_n;
}
// parity bytes from the public encode vs closed form on host-order 16-bit words
static Result run_c04_parity(const Case &c) {
    Result r;
    Config g = cfg_from(c);
    std::vector<uint8_t> data = expand_buffer(c, "data");
    Instance in(g);
    if (!in.ok()) { r.fail("create refused"); return r; }
    // bit-stable: the parity bytes do not depend on what the descriptor decoded or rebuilt before
    std::vector<std::unique_ptr<Instance>> keep;
    prehistory(in.desc, g, c.ints("hist"), r, &keep);
    if (!r.ok) return r;
    Stripe s = encode(in.desc, g, data);
    if (s.rc != 0) { r.fail("encode failed"); return r; }
    auto want = ref::encode_payloads(g, data.data(), data.size());
    for (int i = 0; i < g.n(); i++) {
        std::vector<uint8_t> pay(s.frags[i].begin() + 80, s.frags[i].end());
        if (pay != want[i]) { r.fail("payload " + std::to_string(i) + " differs from the GF(2^16) closed-form model: " + first_diff(pay, want[i])); break; }
    }
    // first parity = xor of data payloads
    if (r.ok && g.m >= 1) {
        std::vector<uint8_t> x(want[0].size(), 0);
        for (int i = 0; i < g.k; i++) for (size_t b = 0; b < x.size(); b++) x[b] ^= s.frags[i][80 + b];
        std::vector<uint8_t> p0(s.frags[g.k].begin() + 80, s.frags[g.k].end());
        if (p0 != x) r.fail("first parity is not the XOR of the data payloads");
    }
    // non-trivial: k>=2 and at least two distinct non-zero 16-bit words
    std::set<uint16_t> words;
    for (size_t i = 0; i + 1 < data.size() && words.size() < 3; i += 2) { uint16_t w; memcpy(&w, &data[i], 2); if (w) words.insert(w); }
    r.nontrivial = g.k >= 2 && words.size() >= 2;
    return r;
}
// same oracle with several threads encoding at once (different data, own or shared instance): the closed
// form does not depend on what other threads are doing
struct MtArg { int desc; Config g; std::vector<uint8_t> data; std::string err; pthread_barrier_t *bar; int rounds; };
static void *mt_encode(void *p) {
    MtArg &a = *(MtArg *)p;
    auto want = ref::encode_payloads(a.g, a.data.data(), a.data.size());
    pthread_barrier_wait(a.bar);
    for (int r = 0; r < a.rounds && a.err.empty(); r++) {
        Stripe s = encode(a.desc, a.g, a.data);
        if (s.rc != 0) { a.err = "encode failed"; break; }
        for (int i = 0; i < a.g.n(); i++) {
            std::vector<uint8_t> pay(s.frags[i].begin() + 80, s.frags[i].end());
            if (pay != want[i]) { a.err = "payload " + std::to_string(i) + " differs from the closed-form model while other threads encode: " + first_diff(pay, want[i]); break; }
        }
    }
    return nullptr;
}
static Result run_c04_parity_mt(const Case &c) {
    Result r;
    Config g = cfg_from(c);
    int nt = (int)c.get("threads", 4);
    bool shared = c.get("shared") != 0;
    std::vector<std::unique_ptr<Instance>> inst;
    std::vector<MtArg> args(nt);
    pthread_barrier_t bar; pthread_barrier_init(&bar, nullptr, nt);
    for (int t = 0; t < nt; t++) {
        if (t == 0 || !shared) { inst.emplace_back(new Instance(g)); if (!inst.back()->ok()) { r.fail("create refused"); return r; } }
        args[t].desc = inst.back()->desc; args[t].g = g; args[t].bar = &bar; args[t].rounds = (int)c.get("rounds", 6);
        Case dc; dc.set("d_cls", BUF_RANDOM); dc.set("d_seed", c.get("data_seed") + 7919 * t); dc.set("d_len", c.get("data_len"));
        args[t].data = expand_buffer(dc, "d");
    }
    std::vector<pthread_t> th(nt);
    for (int t = 0; t < nt; t++) pthread_create(&th[t], nullptr, mt_encode, &args[t]);
    for (int t = 0; t < nt; t++) pthread_join(th[t], nullptr);
    pthread_barrier_destroy(&bar);
    for (int t = 0; t < nt; t++) if (!args[t].err.empty()) r.fail("thread " + std::to_string(t) + ": " + args[t].err);
    r.cls(shared ? "shared_instance" : "own_instances");
    r.nontrivial = g.k >= 2 && g.m >= 2 && c.get("data_len") / g.k > 1024;
    return r;
}
static Case gen_c04_parity_mt() {
    Case c; Config t = gen_config(G_RS); Config g;
    g.backend = ref::B_RS; g.k = std::min(t.k, 12); g.m = std::min(std::max(t.m, 2), 32 - g.k); g.hd = g.m; g.w = 0; g.ct = CT_NONE;
    cfg_to(c, g);
    size_t pay = coin(3, 4) ? (size_t)pick(1100, 6000) : (size_t)pick(2, 1000);
    c.set("data_cls", BUF_RANDOM); c.set("data_seed", (int64_t)pick_seed()); c.set("data_len", (int64_t)(pay * g.k));
    c.set("threads", pick(2, 6)); c.set("shared", coin() ? 1 : 0); c.set("rounds", pick(2, 8));
    return c;
}
static Case gen_c04_parity() {
    Case c; Config g;
    g.backend = ref::B_RS;
    Config t = gen_config(G_RS);
    g.k = t.k; g.m = t.m; g.hd = t.m; g.w = t.w; g.ct = CT_NONE;
    cfg_to(c, g);
    size_t bs = 2 * (size_t)pick(1, 2048);
    // one case in five: a fragment payload on a cache-blocking boundary - (2^a / streams) rounded down to an
    // alignment, times a small factor; streams in {1, 2, k, k+1, m, k+m}
    bool blocking = coin(1, 5);
    if (blocking) {
        int ds[] = {1, 2, g.k, g.k + 1, g.m, g.k + g.m};
        size_t al = (size_t[]){2, 16, 64}[pick(0, 2)];
        size_t cap = (size_t)1 << (opts().tier == "thorough" ? 21 : 20);
        bs = ((((size_t)1 << pick(12, 19)) / ds[pick(0, 5)]) & ~(al - 1)) * (size_t)pick(1, 3);
        bs = std::max<size_t>(2, bs & ~(size_t)1);
        while (bs * g.k > cap && bs % 4 == 0) bs /= 2;
        if (bs * g.k > cap) bs = 2 * (size_t)pick(1, 2048);
    }
    size_t len = bs * g.k;
    if (coin(1, 4)) len = len > 0 ? len - (size_t)pick(0, std::min<int64_t>(len - 1, 2 * g.k)) : 0;
    if (!blocking) len = std::min<size_t>(len, 1 << 17);
    gen_buffer(c, "data", len);
    if (coin()) c.setv("hist", gen_prehistory());
    return c;
}
// enumerated cache-blocking boundaries: payload = ((2^a / streams) & ~(align-1)) * factor
static void sweep_c04_blocking() {
    int shard = (int)opts().shard, ns = (int)opts().nshards, counter = 0;
    bool th = opts().tier == "thorough";
    for (int k : {1, 2, 3, 4, 5, 6, 7, 10, 15, 20}) for (int a = 14; a <= (th ? 20 : 18); a++) for (int dsel = 0; dsel < 3; dsel++) for (size_t al : {16, 64}) for (int f = 1; f <= 2; f++) {
        if ((counter++ % ns) != shard) continue;
        Config g; g.backend = ref::B_RS; g.k = k; g.m = 1 + counter % 3; g.hd = g.m; g.w = 16; g.ct = CT_NONE;
        int d = dsel == 0 ? 1 : dsel == 1 ? k : k + 1;
        size_t bs = ((((size_t)1 << a) / d) & ~(al - 1)) * f;
        if (bs < 2 || bs * k > ((size_t)1 << (th ? 22 : 21))) continue;
        Case c; cfg_to(c, g);
        c.set("data_cls", BUF_RANDOM); c.set("data_seed", 77000 + counter); c.set("data_len", (int64_t)(bs * k));
        sweep_case(c, run_c04_parity);
    }
    stats().exhaustive = true;
}

// ============================================================================================ C05
struct xor_code_head { int k, m, hd; int pad; unsigned int *parity_bms; unsigned int *data_bms; };
extern "C" void *init_xor_hd_code(int k, int m, int hd);
// (a)+(b): library tables vs golden, both directions, and minimum distance of the library's table
static Result run_c05_tables(const Case &c) {
    Result r;
    int k = (int)c.get("k"), m = (int)c.get("m"), hd = (int)c.get("hd");
    const ref::XorShape *s = ref::xor_shape(k, m, hd);
    xor_code_head *code = (xor_code_head *)init_xor_hd_code(k, m, hd);
    if (!s) {
        if (code) { free(code); r.fail("init_xor_hd_code accepted unsupported shape"); }
        return r;
    }
    if (!code) { r.fail("init_xor_hd_code refused supported shape " + std::to_string(k) + "," + std::to_string(m) + "," + std::to_string(hd)); return r; }
    if (code->k != k || code->m != m || code->hd != hd) r.fail("descriptor fields differ");
    std::vector<uint64_t> cols;
    for (int j = 0; j < m && r.ok; j++) {
        uint64_t want = ref::xor_parity_mask(s, j);
        if ((uint64_t)code->parity_bms[j] != want)
            r.fail("parity_bms[" + std::to_string(j) + "]=" + std::to_string(code->parity_bms[j]) + " but golden equation is " + std::to_string(want));
    }
    for (int i = 0; i < k && r.ok; i++) {
        uint64_t want = 0;
        for (int j = 0; j < m; j++) if (ref::xor_parity_mask(s, j) >> i & 1) want |= 1ull << j;
        if ((uint64_t)code->data_bms[i] != want)
            r.fail("data_bms[" + std::to_string(i) + "]=" + std::to_string(code->data_bms[i]) + " but golden equations give " + std::to_string(want));
    }
    // minimum distance of the *library's* parity table
    if (r.ok) {
        int n = k + m;
        for (int i = 0; i < k; i++) cols.push_back(1ull << i);
        for (int j = 0; j < m; j++) cols.push_back(code->parity_bms[j]);
        int mind = 0;
        for (int e = 1; e <= hd && !mind; e++) {
            std::vector<int> idx(e);
            for (int i = 0; i < e; i++) idx[i] = i;
            for (;;) {
                std::vector<uint64_t> v;
                uint64_t gone = 0;
                for (int x : idx) gone |= 1ull << x;
                for (int i = 0; i < n; i++) if (!(gone >> i & 1)) v.push_back(cols[i]);
                stats().extra["sum_erasure_sets_ranked"]++;
                if (ref::rank_gf2(v) != k) { mind = e; break; }
                int i = e - 1;
                while (i >= 0 && idx[i] == n - e + i) i--;
                if (i < 0) break;
                idx[i]++;
                for (int j = i + 1; j < e; j++) idx[j] = idx[j - 1] + 1;
            }
        }
        if (mind != hd) r.fail("minimum distance of the library table is " + std::to_string(mind) + ", expected " + std::to_string(hd));
    }
    free(code);
    r.nontrivial = true;
    return r;
}
static void sweep_c05_tables() {
    for (int i = 0; i < ref::N_XOR_SHAPES; i++) {
        Case c; c.set("k", ref::XOR_SHAPES[i].k); c.set("m", ref::XOR_SHAPES[i].m); c.set("hd", ref::XOR_SHAPES[i].hd);
        sweep_case(c, run_c05_tables);
    }
    stats().exhaustive = true;
    stats().extra["tables"] = ref::N_XOR_SHAPES;
}
// (c) encode: unit data (one non-zero data fragment at a time) and random data vs golden equations
static Result run_c05_encode(const Case &c) {
    Result r;
    Config g = cfg_from(c);
    std::vector<uint8_t> data = expand_buffer(c, "data");
    int unit = (int)c.get("unit_frag", -1);
    uint64_t bs = ref::block_size(g, data.size());
    if (unit >= 0) {      // keep only data fragment `unit`
        for (size_t i = 0; i < data.size(); i++) if ((int)(i / (bs ? bs : 1)) != unit) data[i] = 0;
        bool any = false;
        for (size_t i = 0; i < data.size(); i++) if (data[i]) any = true;
        if (!any && data.size() > (size_t)unit * bs) data[(size_t)unit * bs] = 0x5a;
        // sparse variant: a single non-zero byte at a chosen offset of that fragment (start, start of the last partial
        // 16-byte group, last byte, middle)
        int ub = (int)c.get("unit_byte", -1);
        if (ub >= 0 && bs > 0) {
            size_t off = ub == 0 ? 0 : ub == 1 ? (bs / 16) * 16 % bs : ub == 2 ? bs - 1 : bs / 2;
            size_t at = (size_t)unit * bs + off;
            if (at < data.size()) { uint8_t keep = data[at] ? data[at] : 0xa7; for (size_t i = 0; i < data.size(); i++) data[i] = 0; data[at] = keep; }
        }
    }
    Instance in(g);
    if (!in.ok()) { r.fail("create refused supported flat-XOR shape rc=" + std::to_string(in.desc)); return r; }
    Stripe s = encode(in.desc, g, data);
    if (s.rc != 0) { r.fail("encode failed"); return r; }
    auto want = ref::encode_payloads(g, data.data(), data.size());
    for (int i = 0; i < g.n(); i++) {
        std::vector<uint8_t> pay(s.frags[i].begin() + 80, s.frags[i].end());
        if (pay != want[i]) {
            r.fail(std::string(i < g.k ? "data" : "parity") + " payload " + std::to_string(i) + " is not the XOR of the golden equation's members: " + first_diff(pay, want[i]) +
                   (unit >= 0 ? " (only data fragment " + std::to_string(unit) + " non-zero)" : ""));
            break;
        }
    }
    r.nontrivial = true;
    r.cls(unit >= 0 ? "unit_data" : "random_data");
    if (bs % 16) r.cls("payload_not_multiple_of_16");
    return r;
}
// (f) the built-in code used directly (its own interface, as its own test uses it): an erasure SET is unordered, so the
// missing-index list is presented in every order; decode of the whole set and the rebuild of each member
struct xor_code_full { int k, m, hd; int pad; unsigned int *parity_bms; unsigned int *data_bms;
    int (*decode)(void *, char **, char **, int *, int, int); void (*encode)(void *, char **, char **, int); int (*fragments_needed)(void *, int *, int *, int *); };
extern "C" int xor_reconstruct_one(void *code_desc, char **data, char **parity, int *missing_idxs, int index_to_reconstruct, int blocksize);
static Result run_c05_direct(const Case &c) {
    Result r;
    Config g = cfg_from(c);
    int n = g.n(), bs = (int)c.get("bs", 32);
    xor_code_full *code = (xor_code_full *)init_xor_hd_code(g.k, g.m, g.hd);
    if (!code) { r.fail("init_xor_hd_code refused a supported shape"); return r; }
    std::vector<int> order = c.ints("missing");
    std::vector<std::vector<uint8_t>> orig(n, std::vector<uint8_t>(bs));
    uint64_t sd = 600 + (uint64_t)c.get("seed", 0);
    for (int i = 0; i < g.k; i++) for (auto &b : orig[i]) b = (uint8_t)splitmix64(sd);
    auto alloc = [&](std::vector<char *> &bufs) { for (int i = 0; i < n; i++) { void *p = nullptr; if (posix_memalign(&p, 16, bs ? bs : 16)) abort(); bufs.push_back((char *)p); } };
    auto release = [&](std::vector<char *> &bufs) { for (char *p : bufs) free(p); bufs.clear(); };
    std::vector<char *> bufs; alloc(bufs);
    for (int i = 0; i < g.k; i++) memcpy(bufs[i], orig[i].data(), bs);
    for (int i = g.k; i < n; i++) memset(bufs[i], 0, bs);
    code->encode(code, bufs.data(), bufs.data() + g.k, bs);
    for (int i = g.k; i < n; i++) orig[i].assign((uint8_t *)bufs[i], (uint8_t *)bufs[i] + bs);
    {   // parity against the golden equations
        const ref::XorShape *sh = ref::xor_shape(g.k, g.m, g.hd);
        for (int j = 0; j < g.m && r.ok; j++) {
            std::vector<uint8_t> x(bs, 0);
            for (int i = 0; i < g.k; i++) if (ref::xor_parity_mask(sh, j) >> i & 1) for (int b = 0; b < bs; b++) x[b] ^= orig[i][b];
            if (x != orig[g.k + j]) r.fail("direct encode: parity " + std::to_string(j) + " is not the XOR of its golden equation");
        }
    }
    auto load = [&]() { for (int i = 0; i < n; i++) memcpy(bufs[i], orig[i].data(), bs); for (int x : order) memset(bufs[x], 0, bs); };
    std::vector<int> miss(order.begin(), order.end()); miss.push_back(-1); miss.resize(n + 2, -1);
    if (r.ok) {
        load();
        std::vector<int> mcopy = miss;
        int rc = code->decode(code, bufs.data(), bufs.data() + g.k, mcopy.data(), bs, 1);
        if (rc != 0) r.fail("direct decode of " + std::to_string(order.size()) + " (< hd) erasures failed rc=" + std::to_string(rc));
        else for (int i = 0; i < n; i++) if (memcmp(bufs[i], orig[i].data(), bs)) { r.fail("direct decode: fragment " + std::to_string(i) + " differs afterwards (missing list given in this order)"); break; }
    }
    for (size_t j = 0; j < order.size() && r.ok; j++) {
        load();
        std::vector<int> mcopy = miss;
        int rc = xor_reconstruct_one(code, bufs.data(), bufs.data() + g.k, mcopy.data(), order[j], bs);
        if (rc != 0) r.fail("direct rebuild of fragment " + std::to_string(order[j]) + " failed rc=" + std::to_string(rc));
        else if (memcmp(bufs[order[j]], orig[order[j]].data(), bs)) r.fail("direct rebuild of fragment " + std::to_string(order[j]) + " returned other bytes (missing list given in this order)");
        for (int i = 0; i < n && r.ok; i++) if (std::find(order.begin(), order.end(), i) == order.end() && memcmp(bufs[i], orig[i].data(), bs)) r.fail("direct rebuild modified surviving fragment " + std::to_string(i));
    }
    release(bufs);
    free(code);
    bool sorted = std::is_sorted(order.begin(), order.end());
    r.cls(sorted ? "missing_list_ascending" : "missing_list_other_order");
    r.nontrivial = order.size() >= 2;
    return r;
}
static void sweep_c05_direct() {
    int shard = (int)opts().shard, ns = (int)opts().nshards, counter = 0;
    bool th = opts().tier == "thorough";
    for (int si = 0; si < ref::N_XOR_SHAPES; si++) {
        const ref::XorShape &sh = ref::XOR_SHAPES[si];
        Config g; g.backend = ref::B_XOR; g.k = sh.k; g.m = sh.m; g.hd = sh.hd; g.ct = CT_NONE;
        int n = g.n();
        for (int e = 1; e < sh.hd; e++) {
            std::vector<int> idx(e);
            for (int i = 0; i < e; i++) idx[i] = i;
            for (;;) {
                std::vector<int> perm = idx;
                do {
                    if ((counter++ % ns) == shard && (th || e < 3 || (counter % 3) == 0)) {
                        Case c; cfg_to(c, g);
                        c.setv("missing", perm); c.set("bs", (counter % 4 == 0) ? 100 : (counter % 4 == 1) ? 16 : (counter % 4 == 2) ? 36 : 4); c.set("seed", counter);
                        sweep_case(c, run_c05_direct);
                    }
                } while (std::next_permutation(perm.begin(), perm.end()));
                int i = e - 1;
                while (i >= 0 && idx[i] == n - e + i) i--;
                if (i < 0) break;
                idx[i]++;
                for (int j = i + 1; j < e; j++) idx[j] = idx[j - 1] + 1;
            }
        }
    }
    stats().exhaustive = true;
}
static void sweep_c05_encode() {
    static const int pays[] = {4, 8, 12, 20, 36, 100, 4100};
    bool th = opts().tier == "thorough";
    int shard = (int)opts().shard, ns = (int)opts().nshards, counter = 0;
    for (int i = 0; i < ref::N_XOR_SHAPES; i++) {
        const ref::XorShape &sh = ref::XOR_SHAPES[i];
        Config g; g.backend = ref::B_XOR; g.k = sh.k; g.m = sh.m; g.hd = sh.hd; g.ct = CT_NONE;
        for (int pi = 0; pi < 7; pi++) {
            if (!th && pi != (i % 7) && pi != ((i + 3) % 7)) continue;
            for (int u = -1; u < sh.k; u++) {
                if ((counter++ % ns) != shard) continue;
                Case c; cfg_to(c, g);
                c.set("data_cls", BUF_RANDOM); c.set("data_seed", 40000 + counter); c.set("data_len", (int64_t)pays[pi] * sh.k);
                c.set("unit_frag", u);
                sweep_case(c, run_c05_encode);
                if (u >= 0) for (int ub = 0; ub < 4; ub++) { Case c2 = c; c2.set("unit_byte", ub); sweep_case(c2, run_c05_encode); }
            }
        }
    }
    stats().exhaustive = true;
}
// (e) unsupported triples are refused by create
static Result run_c05_unsupported(const Case &c) {
    Result r;
    Config g = cfg_from(c);
    bool sup = ref::xor_shape(g.k, g.m, g.hd) != nullptr;
    int d = create(g);
    if (sup) { if (d <= 0) r.fail("create refused supported shape"); }
    else if (d > 0) r.fail("create accepted unsupported flat-XOR shape (" + std::to_string(g.k) + "," + std::to_string(g.m) + "," + std::to_string(g.hd) + ")");
    if (d > 0) liberasurecode_instance_destroy(d);
    r.nontrivial = !sup;
    return r;
}
static void sweep_c05_unsupported() {
    for (int k = 0; k <= 33; k++) for (int m = 0; m <= 8; m++) for (int hd = 0; hd <= 7; hd++) {
        Case c; Config g; g.backend = ref::B_XOR; g.k = k; g.m = m; g.hd = hd; g.ct = CT_NONE; cfg_to(c, g);
        sweep_case(c, run_c05_unsupported);
    }
    stats().exhaustive = true;
}

// ---------------------------------------------------------------- reference self-test (frozen vectors)
// Pins the *models* so that they cannot drift silently: CRC-32 check value, the two "seen in the wild"
// header checksums from the repository's test_metadata_crcs_le (standard and historical CRC), field
// arithmetic spot values and a hash over all 496 closed-form generator matrices.
static void selftest() {
    using namespace ref;
    std::vector<std::string> bad;
    auto expect = [&](const char *what, uint64_t got, uint64_t want) { if (got != want) bad.push_back(std::string(what) + ": got " + std::to_string(got) + " want " + std::to_string(want)); };
    expect("gf16_mul", gf16_mul(0x1234, 0x5678), 25380); expect("gf16_inv", gf16_inv(0x1234), 11497); expect("gf16 reduce", gf16_mul(0x8000, 2), 0x100b);
    expect("gf16 inv*x", gf16_mul(0x1234, gf16_inv(0x1234)), 1);
    expect("gf8_mul", gf8_mul(0x57, 0x83), 49); expect("gf8_inv", gf8_inv(0x53), 140); expect("gf8 reduce", gf8_mul(0x80, 2), 0x1d);
    expect("coef(10,10,0)", rs16_coef(10, 10, 0), 1); expect("coef(10,13,7)", rs16_coef(10, 13, 7), 61442); expect("coef(4,5,2)", rs16_coef(4, 5, 2), 27503);
    uint64_t h = 1469598103934665603ull;
    for (int k = 1; k <= 31; k++) for (int m = 1; k + m <= 32; m++) { auto g = rs16_generator(k, m); for (auto x : g) for (int b = 0; b < 4; b++) { h ^= (x >> (8 * b)) & 0xff; h *= 1099511628211ull; } }
    expect("hash of 496 closed-form matrices", h, 4230971072939337423ull);
    auto a = isa_rs_matrix(10, 14); auto c = isa_cauchy_matrix(10, 14);
    uint64_t h2 = 1469598103934665603ull; for (auto x : a) { h2 ^= x; h2 *= 1099511628211ull; } for (auto x : c) { h2 ^= x; h2 *= 1099511628211ull; }
    expect("isa matrices hash", h2, 905858227553292095ull);
    const uint8_t nine[] = "123456789";
    expect("crc32 check value", crc32_std(nine, 9), 0xcbf43926u); expect("legacy crc ascii", crc32_legacy(nine, 9), 0x206af85bu);
    const uint8_t hi[] = {0x80, 0xff, 0x01, 0xfe, 0x7f, 0x81, 0x00, 0xaa};
    expect("crc32 high bytes", crc32_std(hi, 8), 0x7ddfa691u); expect("legacy crc high bytes", crc32_legacy(hi, 8), 0xe2fcb29fu);
    const uint8_t hdr[] = "\x03\x00\x00\x00\x00\x00\x04\x00\x00\x00\x00\x00\x00\x00\x10\x00\x00\x00\x00\x00\x01\x00\x00\x00\x00\x00\x00\x00\x00\x00\x00\x00\x00\x00\x00\x00\x00\x00\x00\x00\x00\x00\x00\x00\x00\x00\x00\x00\x00\x00\x00\x00\x00\x00\x07\x01\x0e\x02\x00";
    expect("wild header std crc", crc32_std(hdr, 59), 0x1873f8ecu); expect("wild header legacy crc", crc32_legacy(hdr, 59), 0xb945ee22u);
    for (int i = 0; i < N_XOR_SHAPES; i++) {       // golden equations: both directions, distance exactly hd
        const XorShape &s = XOR_SHAPES[i];
        std::vector<uint64_t> cols;
        for (int j = 0; j < s.k + s.m; j++) cols.push_back(xor_column(&s, j));
        int n = s.k + s.m, mind = 0;
        for (int e = 1; e <= s.hd && !mind; e++) {
            std::vector<int> idx(e); for (int q = 0; q < e; q++) idx[q] = q;
            for (;;) {
                std::vector<uint64_t> v; uint64_t gone = 0; for (int x : idx) gone |= 1ull << x;
                for (int q = 0; q < n; q++) if (!(gone >> q & 1)) v.push_back(cols[q]);
                if (rank_gf2(v) != s.k) { mind = e; break; }
                int q = e - 1; while (q >= 0 && idx[q] == n - e + q) q--; if (q < 0) break; idx[q]++; for (int z = q + 1; z < e; z++) idx[z] = idx[z - 1] + 1;
            }
        }
        if (mind != s.hd) bad.push_back("golden table " + std::to_string(s.k) + "," + std::to_string(s.m) + "," + std::to_string(s.hd) + " has distance " + std::to_string(mind));
    }
    expect("number of golden tables", N_XOR_SHAPES, 38);
    if (!bad.empty()) { for (auto &b : bad) fprintf(stderr, "REF-SELFTEST-FAILED %s\n", b.c_str()); fflush(stderr); _exit(2); }
    Case sc; sc.set("selftest", 1);
    Result r; r.nontrivial = false;
    stats().record(sc, r);
    stats().notes.push_back("reference self-test passed (frozen vectors)");
}

int main(int argc, char **argv) {
    Harness h;
    h.prop = "C07";
    h.mode("selftest", selftest);
    h.mode("c07", [] { rc_property("C07 wire format", gen_c07, run_c07); }, run_c07);
    h.mode("c07_sweep", sweep_c07, run_c07);
    h.mode("c08", [] { rc_property("C08 sizes", gen_c08, run_c08); }, run_c08);
    h.mode("c08_sweep", sweep_c08, run_c08);
    h.mode("c04_matrix", sweep_c04, run_c04_matrix);
    h.mode("c04_blocking", sweep_c04_blocking, run_c04_parity);
    h.mode("c04_parity", [] { rc_property("C04 parity closed form", gen_c04_parity, run_c04_parity); }, run_c04_parity);
    h.mode("c04_parity_mt", [] { rc_property("C04 parity closed form under concurrent encodes", gen_c04_parity_mt, run_c04_parity_mt); }, run_c04_parity_mt);
    h.mode("c05_tables", sweep_c05_tables, run_c05_tables);
    h.mode("c05_encode", sweep_c05_encode, run_c05_encode);
    h.mode("c05_direct", sweep_c05_direct, run_c05_direct);
    h.mode("c05_unsupported", sweep_c05_unsupported, run_c05_unsupported);
    return harness_main(argc, argv, h);
}
