// C09 (header acceptance), C10 (payload checksums), C11 (opposite-endian twins), C12 (validation)
#include "lib.hpp"
using namespace fw;
using namespace lib;
using ref::get32; using ref::put32; using ref::get64; using ref::put64; using ref::bswap32;

static const char *ENVV[] = {nullptr, "", "0", "1", "yes"};
static void set_env(int idx) {
    if (idx <= 0) unsetenv("LIBERASURECODE_WRITE_LEGACY_CRC");
    else setenv("LIBERASURECODE_WRITE_LEGACY_CRC", ENVV[idx], 1);
}
static bool env_legacy(int idx) { return idx >= 3; }

// field-wise byte swap of a header = what a host of the other endianness would have stored for the
// same logical values; the metadata CRC is recomputed over the swapped 59 bytes and stored swapped
static void swap_fields(uint8_t *h) {
    auto sw32 = [&](int off) { put32(h + off, bswap32(get32(h + off))); };
    sw32(ref::O_IDX); sw32(ref::O_SIZE); sw32(ref::O_BMS);
    uint64_t o = get64(h + ref::O_ORIG);
    uint64_t so = ((uint64_t)bswap32((uint32_t)o) << 32) | bswap32((uint32_t)(o >> 32));
    put64(h + ref::O_ORIG, so);
    for (int i = 0; i < 8; i++) sw32(ref::O_CHK + 4 * i);
    sw32(ref::O_BEVER); sw32(ref::O_MAGIC); sw32(ref::O_LIBVER);
}
static void make_twin(uint8_t *h, bool legacy = false) {
    swap_fields(h);
    uint32_t crc = legacy ? ref::crc32_legacy(h, ref::META_LEN) : ref::crc32_std(h, ref::META_LEN);
    put32(h + ref::O_MCRC, bswap32(crc));
}

struct Base { bool ok = false, crc0 = false; std::string err; std::unique_ptr<Instance> in; Stripe s; Config g; std::vector<uint8_t> data; };
static void make_base(Base &b, const Case &c, int writer_env = 0) {
    b.g = cfg_from(c);
    if (ref::is_isa(b.g.backend) && !isa_available()) { b.err = "skip"; return; }
    std::vector<uint8_t> data = expand_buffer(c, "data");
    if (c.get("crc0", 0)) b.crc0 = make_crc0(b.g, data, (int)((c.get("crc0") - 1) % b.g.k));
    b.data = data;
    set_env(writer_env);
    b.in.reset(new Instance(b.g));
    if (!b.in->ok()) { set_env(0); b.err = "create refused rc=" + std::to_string(b.in->desc); return; }
    b.s = encode(b.in->desc, b.g, data);
    set_env(0);
    if (b.s.rc != 0) { b.err = "encode failed"; return; }
    b.ok = true;
}

// ============================================================================================ C09
// mutation program: ops = triples (kind, a, b); reseal = kind
enum { M_FLIP = 1, M_BYTE, M_MULTI, M_VERSION, M_MAGIC, M_TWIN };
enum { S_NONE = 0, S_STD, S_LEGACY, S_58, S_60, S_SWAPPED, S_ONEBYTE };
static void apply_mutations(std::vector<uint8_t> &f, const std::vector<int64_t> &ops, int reseal, int64_t reseal_arg, uint32_t running) {
    uint8_t *h = f.data();
    for (size_t i = 0; i + 2 < ops.size(); i += 3) {
        int64_t kind = ops[i], a = ops[i + 1], b = ops[i + 2];
        switch (kind) {
        case M_FLIP: h[(a % 640) / 8] ^= (uint8_t)(1u << (a % 8)); break;
        case M_BYTE: h[a % 80] = (uint8_t)b; break;
        case M_MULTI: { uint64_t sd = (uint64_t)b; int cnt = 1 + (int)(a % 6); for (int j = 0; j < cnt; j++) { size_t off = splitmix64(sd) % 71; h[off] = (uint8_t)splitmix64(sd); } break; }
        case M_VERSION: {
            static const uint32_t fixed[] = {0, 0x0101ff, 0x010200, 0x0101fe, 0, 0, 0xffffffffu, 1, 0x010201};
            uint32_t v = fixed[a % 9];
            if (a % 9 == 4) v = running;
            if (a % 9 == 5) v = running + 1;
            bool swapped = get32(h + ref::O_MAGIC) != ref::MAGIC && bswap32(get32(h + ref::O_MAGIC)) == ref::MAGIC;
            put32(h + ref::O_LIBVER, swapped ? bswap32(v) : v);
            break;
        }
        case M_MAGIC: {
            uint32_t mg = get32(h + ref::O_MAGIC);
            if (a % 3 == 0) mg = bswap32(mg); else if (a % 3 == 1) mg = 0; else mg ^= 1u << (b % 32);
            put32(h + ref::O_MAGIC, mg);
            break;
        }
        case M_TWIN: swap_fields(h); break;
        }
    }
    uint32_t st = ref::crc32_std(h, 59);
    switch (reseal) {
    case S_STD: put32(h + ref::O_MCRC, st); break;
    case S_LEGACY: put32(h + ref::O_MCRC, ref::crc32_legacy(h, 59)); break;
    case S_58: put32(h + ref::O_MCRC, ref::crc32_std(h, 58)); break;
    case S_60: put32(h + ref::O_MCRC, ref::crc32_std(h, 60)); break;
    case S_SWAPPED: put32(h + ref::O_MCRC, bswap32(st)); break;
    case S_ONEBYTE: { put32(h + ref::O_MCRC, st); h[ref::O_MCRC + (reseal_arg % 4)] ^= (uint8_t)(1 + (reseal_arg / 4) % 255); break; }
    }
}
static bool differs_only_in_safe_bytes(const std::vector<uint8_t> &a, const std::vector<uint8_t> &b) {
    for (int i = 0; i < 20; i++) if (a[i] != b[i]) return false;     // idx, size, backend metadata size, orig size
    return true;
}
static Result run_c09(const Case &c) {
    Result r;
    Base b;
    make_base(b, c, (int)c.get("legacy") ? 3 : 0);
    if (!b.ok) { if (b.err == "skip") r.skipped = true; else r.fail(b.err); return r; }
    int n = b.g.n();
    int fi = (int)(c.get("frag") % n);
    uint32_t running = liberasurecode_get_version();
    std::vector<uint8_t> orig = b.s.frags[fi], f = orig;
    if (!ref::accept_consume(orig.data())) { r.fail("a header written by encode is rejected by the reference predicate"); return r; }
    apply_mutations(f, c.list("ops"), (int)c.get("reseal"), c.get("reseal_arg"), running);
    bool acc = ref::accept_header(f.data()), cons = ref::accept_consume(f.data());
    bool changed = f != orig;
    r.cls(acc ? (cons ? "ref_accept_native" : "ref_accept_swapped_only") : "ref_reject");
    if (c.get("reseal")) r.cls("resealed");
    // 1. is_invalid_fragment_header: always
    {
        InBuf hb(std::vector<uint8_t>(f.begin(), f.begin() + 80), c.get("ro", 0) != 0);
        int v = is_invalid_fragment_header(hb.p);
        if (memcmp(hb.p, f.data(), 80)) r.fail("is_invalid_fragment_header modified the header");
        if ((v != 0) != !acc) r.fail(std::string("is_invalid_fragment_header says ") + (v ? "invalid" : "valid") + " but the reference predicate says " + (acc ? "acceptable" : "unacceptable"));
    }
    // 2. metadata query (safety filter: the library is entitled to trust size/type of an accepted header)
    {
        bool swapped = !ref::native_magic(f.data());
        uint32_t eff_size = get32(&f[ref::O_SIZE]);
        if (swapped) eff_size = bswap32(eff_size);
        bool safe = !acc || f[ref::O_CT] != 2 || eff_size <= f.size() - 80;
        if (safe) {
            InBuf fb(f, c.get("ro", 0) != 0);
            fragment_metadata_t md;
            memset(&md, 0x77, sizeof md);
            int rc = liberasurecode_get_fragment_metadata(fb.p, &md);
            if (memcmp(fb.p, f.data(), f.size())) r.fail("get_fragment_metadata modified the fragment");
            if (acc && rc != 0) r.fail("get_fragment_metadata rejected (rc=" + std::to_string(rc) + ") a header the reference accepts");
            if (!acc && rc != -E_BADHEADER) r.fail("get_fragment_metadata returned " + std::to_string(rc) + " for an unacceptable header (expected -EBADHEADER)");
            r.cls("metadata_called");
        } else r.cls("metadata_filtered");
    }
    // 3. decode / reconstruct with the mutated fragment among the untouched rest
    if (!cons || differs_only_in_safe_bytes(f, orig)) {
        // the verdict belongs to the list as a whole: it may not depend on where in the list the fragment sits (rot) or
        // on which acceptable headers its companions carry (comp_ver: the others claim another release - before
        // 1.2.0 without a metadata checksum, as those releases wrote them, or re-sealed)
        std::vector<std::vector<uint8_t>> comp(n);
        int64_t cv = c.get("comp_ver", 0);
        for (int i = 0; i < n; i++) {
            comp[i] = b.s.frags[i];
            if (cv && i != fi) {
                put32(&comp[i][ref::O_LIBVER], (uint32_t)cv);
                if ((uint32_t)cv < ref::V120 && (c.get("comp_unsealed", 0))) put32(&comp[i][ref::O_MCRC], 0); else ref::reseal(comp[i].data(), c.get("legacy") != 0);
                if (!ref::accept_consume(comp[i].data())) { comp[i] = b.s.frags[i]; cv = 0; }
            }
        }
        if (cv) r.cls((uint32_t)cv < ref::V120 ? "companions_pre_1_2_0" : "companions_other_release");
        std::vector<const std::vector<uint8_t> *> frs;
        int rot = (int)(c.get("rot", 0) % n);
        // pad: duplicates of the untouched companions in front (lists longer than k+m, longer than 32 entries, are legal)
        int pad = (int)c.get("pad", 0);
        for (int j = 0; j < pad; j++) { int i = (j * 5 + 1) % n; if (i == fi) i = (i + 1) % n; if (i != fi) frs.push_back(&comp[i]); }
        int mpos = -1;
        for (int j = 0; j < n; j++) { int i = (j + rot) % n; if (i == fi) mpos = (int)frs.size(); frs.push_back(i == fi ? &f : &comp[i]); }
        if (mpos != 0) r.cls("mutated_not_first"); else r.cls("mutated_first");
        if (mpos >= 32) r.cls("mutated_beyond_position_31");
        {
            FragSet fs; fs.build(frs, c.ints("align"));
            DecodeOut d = decode(b.in->desc, fs, b.s.fraglen, 0);
            if (!fs.unchanged()) r.fail("decode modified a fragment");
            if (cons) {
                if (d.rc != 0) r.fail("decode rejected (rc=" + std::to_string(d.rc) + ") a stripe whose headers the reference accepts");
                else if (d.out != b.s.data) r.fail("decode returned wrong data");
            } else if (d.rc != -E_BADHEADER) r.fail("decode returned " + std::to_string(d.rc) + " for a stripe containing an unacceptable header (expected -EBADHEADER)");
        }
        {
            FragSet fs; fs.build(frs, c.ints("align"));
            int dest = (fi + 1) % n;
            ReconOut o = reconstruct(b.in->desc, fs, b.s.fraglen, dest);
            if (!fs.unchanged()) r.fail("reconstruct modified a fragment");
            if (cons) {
                if (o.rc != 0) r.fail("reconstruct rejected (rc=" + std::to_string(o.rc) + ") fragments whose headers the reference accepts");
            } else if (o.rc != -E_BADHEADER) r.fail("reconstruct returned " + std::to_string(o.rc) + " for an unacceptable header (expected -EBADHEADER)");
        }
        // the same list with one untouched fragment withheld: the library cannot take its shortcuts (all data present /
        // destination supplied) and has to decode for real - the verdict on the headers must be the same
        if (c.get("withhold", 0) && b.g.backend != ref::B_NULL && ref::tolerance(b.g) >= 1 && n >= 2) {
            int wh = (int)((fi + 1 + (c.get("withhold") - 1) % (n - 1)) % n);      // never the mutated one
            std::vector<const std::vector<uint8_t> *> frs2; uint64_t pm = 0;
            for (size_t j = 0; j < frs.size(); j++) if (frs[j] != &comp[wh]) frs2.push_back(frs[j]);
            for (int i = 0; i < n; i++) if (i != wh) pm |= 1ull << i;
            Config g8 = b.g; if (ref::is_isa(g8.backend)) g8.w = 8;
            bool demand = !(b.g.backend == ref::B_ISA_V && !ref::isa_first_k_invertible(g8, pm));
            {
                FragSet fs; fs.build(frs2, c.ints("align"));
                DecodeOut d = decode(b.in->desc, fs, b.s.fraglen, 0);
                if (cons) { if (d.rc == 0 && d.out != b.s.data) r.fail("decode (one fragment withheld) returned wrong data"); if (d.rc != 0 && demand) r.fail("decode (one fragment withheld) rejected (rc=" + std::to_string(d.rc) + ") a stripe whose headers the reference accepts"); }
                else if (d.rc != -E_BADHEADER) r.fail("decode (one fragment withheld) returned " + std::to_string(d.rc) + " for a stripe containing an unacceptable header (expected -EBADHEADER)");
            }
            {
                FragSet fs; fs.build(frs2, c.ints("align"));
                ReconOut o = reconstruct(b.in->desc, fs, b.s.fraglen, wh);
                if (cons) { if (o.rc == 0 && f == orig && (o.out.size() != b.s.frags[wh].size() || memcmp(o.out.data() + 80, b.s.frags[wh].data() + 80, o.out.size() - 80))) r.fail("reconstruct of the withheld fragment returned a different payload"); if (o.rc != 0 && demand) r.fail("reconstruct of a withheld fragment rejected (rc=" + std::to_string(o.rc) + ") fragments whose headers the reference accepts"); }
                else if (o.rc != -E_BADHEADER) r.fail("reconstruct of a withheld fragment returned " + std::to_string(o.rc) + " for an unacceptable header (expected -EBADHEADER)");
            }
            r.cls(b.s.data.empty() ? "withheld_fragment_empty_object" : "withheld_fragment");
        }
        r.cls("consumers_called");
    } else r.cls("consumers_filtered");
    bool touches_gate = false;
    for (size_t i = 0; i + 2 < c.list("ops").size(); i += 3) { int64_t k = c.list("ops")[i]; if (k == M_VERSION || k == M_MAGIC || k == M_TWIN) touches_gate = true; }
    r.nontrivial = changed && (!acc || c.get("reseal") != 0 || touches_gate);
    return r;
}
static void gen_small_base(Case &c, int allowed = G_ALL, int ct = -1) {
    Config g = gen_config(allowed, ct);
    cfg_to(c, g);
    size_t len = (size_t)pick(0, 3) == 0 ? (size_t)pick(0, 4) : (size_t)pick(1, 600);
    gen_buffer(c, "data", len, coin(1, 3) ? BUF_HIGH : -1);
    c.set("frag", pick(0, 31));
}
static Case gen_c09() {
    Case c;
    gen_small_base(c);
    c.set("legacy", coin(1, 4) ? 1 : 0);
    std::vector<int64_t> ops;
    int nops = weighted({0, 6, 3, 1});
    for (int i = 0; i < nops; i++) {
        int kind = 1 + weighted({4, 3, 2, 3, 2, 2});
        ops.push_back(kind); ops.push_back(pick(0, 1 << 20)); ops.push_back(pick(0, 1 << 20));
    }
    c.setl("ops", ops);
    c.set("reseal", weighted({5, 4, 2, 1, 1, 2, 2}));
    c.set("reseal_arg", pick(0, 4 * 255 - 1));
    c.set("rot", pick(0, 31));
    if (coin(1, 4)) c.set("pad", coin() ? pick(1, 8) : pick(20, 70));
    if (coin(1, 3)) c.set("withhold", pick(1, 31));
    if (coin(1, 3)) { std::vector<int> al; for (int i = 0; i < 40; i++) al.push_back(coin() ? 0 : (coin(1, 3) ? 8 : (int)pick(1, 15))); c.setv("align", al); }      // where the fragment buffers sit (16-aligned or not)
    if (coin(1, 3)) {
        uint32_t running = liberasurecode_get_version();
        int64_t v = coin(2, 3) ? (((int64_t)1 << 16) | (pick(0, 1) << 8) | pick(0, 9)) : (int64_t)pick(ref::V120, running);
        c.set("comp_ver", v);
        c.set("comp_unsealed", coin(2, 3) ? 1 : 0);
    }
    c.set("ro", coin() ? 1 : 0);       // inputs on read-only pages (a query may not write into a fragment, not even temporarily)
    return c;
}
// all 640 single-bit flips (no reseal, and re-sealed std) for a set of base headers
static void sweep_c09() {
    int shard = (int)opts().shard, ns = (int)opts().nshards, counter = 0;
    std::vector<Config> cfgs;
    for (int be : {ref::B_RS, ref::B_XOR, ref::B_ISA_V, ref::B_ISA_C, ref::B_NULL}) for (int ct : {CT_NONE, CT_CRC32}) {
        Config g; g.backend = be; g.ct = ct;
        if (be == ref::B_XOR) { g.k = 10; g.m = 5; g.hd = 3; } else { g.k = 4; g.m = 2; g.hd = 2; }
        cfgs.push_back(g);
    }
    for (auto &g : cfgs) for (int legacy = 0; legacy < 2; legacy++) for (int frag : {1, g.n() - 1})
        for (int reseal : {S_NONE, S_STD}) for (int bit = 0; bit < 640; bit++) {
            if ((counter++ % ns) != shard) continue;
            Case c; cfg_to(c, g);
            c.set("data_cls", BUF_HIGH); c.set("data_seed", 11 + frag); c.set("data_len", 123);
            c.set("frag", frag); c.set("legacy", legacy);
            c.setl("ops", {M_FLIP, bit, 0}); c.set("reseal", reseal); c.set("reseal_arg", 0);
            c.set("ro", (counter / 3) & 1);
            if (counter % 5 == 0) c.set("withhold", 1 + counter % 7);
            if (counter % 4 == 1) c.setv("align", std::vector<int>{8, 0, 3, 8, 8, 1, 8, 15, 8, 8, 8, 8, 8, 8, 8, 8, 8, 8});
            sweep_case(c, run_c09);
        }
    stats().exhaustive = true;
    stats().extra["base_headers"] = (int64_t)cfgs.size() * 4;
    stats().extra["bit_flips_per_header"] = 640;
}

// ============================================================================================ C10
static Result run_c10(const Case &c) {
    Result r;
    int wenv = (int)c.get("wenv"), renv = (int)c.get("renv");
    Base b;
    make_base(b, c, wenv);
    if (!b.ok) { if (b.err == "skip") r.skipped = true; else r.fail(b.err); return r; }
    int n = b.g.n(), t = ref::tolerance(b.g);
    int fi = (int)(c.get("frag") % n);
    std::vector<uint8_t> f = b.s.frags[fi];
    bool legacy = env_legacy(wenv);
    // source: the fragment as encode wrote it, or as reconstruct rebuilds it (written under wenv too)
    if (c.get("via_reconstruct") && t >= 1) {
        // the surviving fragments may come from a writer configured with another checksum type (same back end and
        // shape): what reconstruct writes is governed by the configuration of the instance doing the rebuild
        Stripe foreign;
        int wct = (int)c.get("writer_ct", 0);
        const bool supplied = c.get("via_reconstruct") == 2;       // the copy handed back is the writer's own fragment: own stripe only
        if (wct && wct != CT_CRC32 && !supplied) {
            Config g2 = b.g; g2.ct = wct;
            set_env(wenv);
            Instance w2(g2);
            if (w2.ok()) foreign = encode(w2.desc, g2, b.data);
            set_env(0);
            if (!w2.ok() || foreign.rc != 0) { r.fail("writer instance with another checksum type failed"); return r; }
            r.cls("rebuilt_from_other_ct_" + std::to_string(wct));
        }
        const Stripe &src = foreign.frags.empty() ? b.s : foreign;
        std::vector<const std::vector<uint8_t> *> frs;
        for (int i = 0; i < n; i++) if (i != fi || c.get("via_reconstruct") == 2) frs.push_back(&src.frags[i]);      // 2: the index asked for is among the fragments supplied
        if (c.get("via_reconstruct") == 2) r.cls("rebuilt_although_supplied");
        FragSet fs; fs.build(frs, {});
        int recenv = (int)c.get("recenv", wenv);      // the switch at repair time is independent of the one at encode time
        set_env(recenv);
        ReconOut o = reconstruct(b.in->desc, fs, b.s.fraglen, fi);
        set_env(0);
        legacy = supplied ? env_legacy(wenv) : env_legacy(recenv);
        r.cls(env_legacy(recenv) == env_legacy(wenv) ? "repair_env_same_variant" : "repair_env_other_variant");
        if (o.rc != 0) {
            if (b.g.backend == ref::B_ISA_V) { r.skipped = true; return r; }
            r.fail("reconstruct failed rc=" + std::to_string(o.rc)); return r;
        }
        f = o.out;
        if (f.size() != b.s.frags[fi].size() || memcmp(f.data() + 80, b.s.frags[fi].data() + 80, f.size() - 80)) r.fail("rebuilt payload differs from the encoded one");
        r.cls("via_reconstruct");
    }
    size_t paylen = f.size() - 80;
    const uint8_t *pay = f.data() + 80;
    // (1) written checksums
    uint32_t want_p = legacy ? ref::crc32_legacy(pay, paylen) : ref::crc32_std(pay, paylen);
    uint32_t want_m = legacy ? ref::crc32_legacy(f.data(), 59) : ref::crc32_std(f.data(), 59);
    if (f[ref::O_CT] != 2) r.fail("checksum type byte is not CRC32");
    if (get32(&f[ref::O_CHK]) != want_p) r.fail(std::string("stored payload checksum is not the ") + (legacy ? "historical" : "standard") + " CRC-32 of the payload (env value index " + std::to_string(wenv) + ")");
    if (get32(&f[ref::O_MCRC]) != want_m) r.fail(std::string("stored metadata checksum is not the ") + (legacy ? "historical" : "standard") + " CRC-32 of bytes 0..58");
    if (f[ref::O_MISM] != 0) r.fail("mismatch flag set by the writer");
    // (2) corruption
    int kind = (int)c.get("ckind");
    int64_t a = c.get("carg"), v = c.get("cval");
    if (paylen == 0 && kind >= 1 && kind <= 3) kind = 0;
    if (paylen == 0 && kind == 7) kind = 6;
    switch (kind) {
    case 1: f[80 + (a % (paylen * 8)) / 8] ^= (uint8_t)(1u << (a % 8)); break;
    case 2: { size_t off = a % paylen, len = 1 + v % 17; uint64_t sd = (uint64_t)v; for (size_t i = off; i < off + len && i < paylen; i++) f[80 + i] ^= (uint8_t)(1 + splitmix64(sd) % 255); break; }
    case 3: f[80 + a % paylen] = (uint8_t)v; break;
    case 4: put32(&f[ref::O_CHK], legacy ? ref::crc32_std(pay, paylen) : ref::crc32_legacy(pay, paylen)); ref::reseal(f.data()); break;   // the other variant
    case 5: put32(&f[ref::O_CHK], (uint32_t)v * 2654435761u + (uint32_t)a); ref::reseal(f.data()); break;
    case 6: f[ref::O_MISM] = (uint8_t)(1 + v % 255); ref::reseal(f.data(), legacy); break;     // the STORED flag is not an input of the verdict for CRC32 fragments: it is recomputed
    case 7: f[ref::O_MISM] = (uint8_t)(1 + v % 255); ref::reseal(f.data(), legacy); if (paylen) f[80 + (a % (paylen * 8)) / 8] ^= (uint8_t)(1u << (a % 8)); break;
    }
    uint32_t stored = get32(&f[ref::O_CHK]);
    bool want_mismatch = ref::crc32_std(f.data() + 80, paylen) != stored && ref::crc32_legacy(f.data() + 80, paylen) != stored;
    set_env(renv);
    {
        InBuf fb(f, c.get("ro", 0) != 0);
        fragment_metadata_t md; memset(&md, 0x77, sizeof md);
        int rc = liberasurecode_get_fragment_metadata(fb.p, &md);
        if (rc != 0) r.fail("get_fragment_metadata failed rc=" + std::to_string(rc));
        else {
            if ((md.chksum_mismatch != 0) != want_mismatch) r.fail(std::string("chksum_mismatch=") + std::to_string(md.chksum_mismatch) + " but the reference says " + (want_mismatch ? "mismatch" : "intact") + " (corruption kind " + std::to_string(kind) + ")");
            if (md.chksum_type != 2) r.fail("metadata checksum type not CRC32");
            if (md.chksum[0] != stored) r.fail("metadata does not report the stored checksum");
        }
        // (3) validation - through the writer's descriptor or through another descriptor of the same back end and shape
        // configured with another checksum type (the verdict is about the fragment, not about who asks)
        std::unique_ptr<Instance> validator;
        int vdesc = b.in->desc;
        if (int vct = (int)c.get("validator_ct", 0)) {
            Config gv = b.g; gv.ct = vct;
            validator.reset(new Instance(gv));
            if (!validator->ok()) { r.fail("validator instance create failed"); set_env(0); return r; }
            vdesc = validator->desc;
            r.cls("validated_by_other_ct_" + std::to_string(vct));
        }
        int inv = is_invalid_fragment(vdesc, fb.p);
        if ((inv != 0) != want_mismatch) r.fail(std::string("is_invalid_fragment=") + std::to_string(inv) + " but payload checksum " + (want_mismatch ? "mismatches" : "is intact") + " and everything else is valid");
        if (memcmp(fb.p, f.data(), f.size())) r.fail("validation modified the fragment");
    }
    // "on any reader": the same fragment as a host of the other byte order stores it gets the same verdict
    if (c.get("twin", 0)) {
        std::vector<uint8_t> tw = f;
        make_twin(tw.data(), legacy && (c.get("carg") & 1));
        InBuf tb(tw, c.get("ro", 0) != 0);
        fragment_metadata_t md; memset(&md, 0x55, sizeof md);
        int rc = liberasurecode_get_fragment_metadata(tb.p, &md);
        if (rc != 0) r.fail("get_fragment_metadata failed on the opposite-endian image rc=" + std::to_string(rc));
        else {
            if ((md.chksum_mismatch != 0) != want_mismatch) r.fail(std::string("opposite-endian image: chksum_mismatch=") + std::to_string(md.chksum_mismatch) + " but the reference says " + (want_mismatch ? "mismatch" : "intact"));
            if (md.chksum[0] != stored) r.fail("opposite-endian image: metadata does not report the stored checksum");
        }
        r.cls(legacy ? "twin_legacy_crc" : "twin_standard_crc");
    }
    set_env(0);
    bool high = false;
    for (size_t i = 0; i < paylen; i++) if (pay[i] >= 0x80) high = true;
    r.cls("wenv_" + std::to_string(wenv)); r.cls("renv_" + std::to_string(renv)); r.cls("ckind_" + std::to_string(kind));
    r.cls(want_mismatch ? "mismatch" : "intact");
    if (b.crc0 && fi == (int)((c.get("crc0") - 1) % b.g.k)) r.cls(stored == 0 ? "stored_checksum_zero" : "crc0_requested_other_variant");
    r.nontrivial = high && kind != 0;
    return r;
}
static Case gen_c10() {
    Case c;
    gen_small_base(c, G_REAL, CT_CRC32);
    c.set("wenv", weighted({4, 1, 1, 3, 1}));
    c.set("renv", weighted({4, 1, 1, 3, 1}));
    c.set("via_reconstruct", weighted({4, 2, 1}));
    c.set("recenv", weighted({4, 1, 1, 3, 1}));
    c.set("twin", coin(1, 3) ? 1 : 0);
    c.set("validator_ct", weighted({3, 1, 0, 1}));          // 0: the writer's own descriptor, 1: a NONE-configured one, 3: an MD5-configured one
    c.set("writer_ct", weighted({3, 2, 0, 1}));        // 0: same instance, 1: NONE-configured writer, 3: MD5-configured writer
    { Config g = cfg_from(c); int fi = (int)(c.get("frag") % g.n()); if (coin(1, 5) && fi < g.k) c.set("crc0", fi + 1); }
    c.set("ckind", weighted({2, 4, 2, 2, 2, 1, 2, 1}));
    c.set("carg", pick(0, 1 << 24));
    c.set("cval", pick(0, 1 << 24));
    c.set("ro", coin() ? 1 : 0);       // inputs on read-only pages (a query may not write into a fragment, not even temporarily)
    return c;
}
// every single-bit flip of short payloads
static void sweep_c10() {
    int shard = (int)opts().shard, ns = (int)opts().nshards, counter = 0;
    for (int be : {ref::B_RS, ref::B_XOR, ref::B_ISA_C}) for (int wenv : {0, 3}) for (int plen : {2, 8, 20, 64}) {
        Config g; g.backend = be; g.ct = CT_CRC32;
        if (be == ref::B_XOR) { g.k = 5; g.m = 5; g.hd = 3; } else { g.k = 3; g.m = 2; g.hd = 2; }
        size_t paylen = (size_t)plen;
        if (be == ref::B_XOR) paylen = (paylen + 3) / 4 * 4;
        for (int frag : {0, g.n() - 1}) for (size_t bit = 0; bit < paylen * 8; bit++) {
            if ((counter++ % ns) != shard) continue;
            Case c; cfg_to(c, g);
            c.set("data_cls", BUF_HIGH); c.set("data_seed", 5 + plen); c.set("data_len", (int64_t)(paylen * g.k));
            c.set("frag", frag); c.set("wenv", wenv); c.set("renv", (counter % 5)); c.set("via_reconstruct", 0);
            c.set("ckind", 1); c.set("carg", (int64_t)bit); c.set("cval", 0);
            sweep_case(c, run_c10);
        }
    }
    stats().exhaustive = true;
}
// (4) the exported historical CRC vs the bit-serial model
static Result run_c10_alt(const Case &c) {
    Result r;
    std::vector<uint8_t> b = expand_buffer(c, "buf");
    ExactBuf eb(b);
    uint32_t got = (uint32_t)liberasurecode_crc32_alt(0, eb.p, b.size());
    uint32_t want = ref::crc32_legacy(b.data(), b.size());
    if (got != want) r.fail("liberasurecode_crc32_alt=" + std::to_string(got) + " but the historical sign-extending CRC model gives " + std::to_string(want));
    bool high = false;
    for (auto x : b) if (x >= 0x80) high = true;
    r.nontrivial = high && b.size() >= 2;
    if (want != ref::crc32_std(b.data(), b.size())) r.cls("legacy_differs_from_std");
    return r;
}
static Case gen_c10_alt() {
    Case c;
    size_t len = coin(1, 4) ? (size_t)pick(0, 8) : (size_t)pick(0, 4096);
    gen_buffer(c, "buf", len, coin() ? BUF_HIGH : -1);
    return c;
}

// ============================================================================================ C11
static Result run_c11(const Case &c) {
    Result r;
    Base b;
    int wenv = (int)c.get("wenv", 0), renv = (int)c.get("renv", 0);
    make_base(b, c, wenv);           // the fragment may have been written with the historical CRC
    if (!b.ok) { if (b.err == "skip") r.skipped = true; else r.fail(b.err); return r; }
    int n = b.g.n();
    int fi = (int)(c.get("frag") % n);
    std::vector<uint8_t> f = b.s.frags[fi];
    size_t paylen = f.size() - 80;
    if (env_legacy(wenv)) r.cls("legacy_written");
    // optionally overwrite fields that read the same both ways with asymmetric values (metadata query
    // only copies them; size and payload stay intact), then re-seal the native header
    if (c.get("asym")) {
        uint64_t sd = (uint64_t)c.get("asym_seed");
        put32(&f[ref::O_BMS], (uint32_t)splitmix64(sd) | 0x01000000u);
        for (int i = 1; i < 8; i++) put32(&f[ref::O_CHK + 4 * i], (uint32_t)splitmix64(sd) | 0x00010002u);
        if (f[ref::O_CT] != 2) put32(&f[ref::O_CHK], (uint32_t)splitmix64(sd) | 0x00000301u);
        put32(&f[ref::O_IDX], (uint32_t)splitmix64(sd) | 0x00020000u);
        put64(&f[ref::O_ORIG], splitmix64(sd) | 0x0000000100000002ull);
        put32(&f[ref::O_BEVER], (uint32_t)splitmix64(sd) | 0x03000001u);
        f[ref::O_BEID] = (uint8_t)splitmix64(sd);
        ref::reseal(f.data());
        r.cls("asymmetric_fields");
    }
    // optionally the header claims another library version: releases before 1.2.0 wrote no metadata checksum
    // (field left zero), later ones did; both hosts must treat the same logical header the same way
    int64_t lv = c.get("libver", 0);
    bool unsealed = false;
    if (lv) {
        put32(&f[ref::O_LIBVER], (uint32_t)lv);
        if (c.get("libver_seal", 1)) ref::reseal(f.data(), env_legacy(wenv)); else { put32(&f[ref::O_MCRC], 0); unsealed = true; }
        r.cls((uint32_t)lv < ref::V120 ? "claims_pre_1_2_0" : (uint32_t)lv > liberasurecode_get_version() ? "claims_future" : "claims_other_release");
        if (unsealed) r.cls("no_metadata_checksum");
    }
    // constructed header class: the metadata checksum of the opposite-endian image is a byte palindrome (b0 b1 b1 b0), so
    // that its stored word reads the same in both byte orders (2^-16 per header by chance; found by varying an unused
    // checksum word of the native header and re-sealing it)
    if (c.get("pal", 0) && !lv) {
        static uint32_t T[256]; static bool init = false;
        if (!init) { for (uint32_t i = 0; i < 256; i++) { uint32_t x = i; for (int b = 0; b < 8; b++) x = (x & 1) ? 0xedb88320u ^ (x >> 1) : x >> 1; T[i] = x; } init = true; }
        std::vector<uint8_t> t(f.begin(), f.begin() + 80);
        swap_fields(t.data());
        uint32_t nonce = (uint32_t)c.get("asym_seed") * 2654435761u;
        for (int tries = 0; tries < 1000000; tries++, nonce++) {
            put32(&t[ref::O_CHK + 28], bswap32(nonce));
            uint32_t crc = 0xffffffffu;
            for (int i = 0; i < ref::META_LEN; i++) crc = T[(crc ^ t[i]) & 0xff] ^ (crc >> 8);
            crc = ~crc;
            if ((crc & 0xff) == (crc >> 24) && ((crc >> 8) & 0xff) == ((crc >> 16) & 0xff)) {
                put32(&f[ref::O_CHK + 28], nonce); ref::reseal(f.data(), false);
                r.cls("twin_metadata_checksum_palindromic");
                break;
            }
        }
    }
    bool corrupt = c.get("corrupt") && paylen > 0;
    if (corrupt) { int64_t a = c.get("carg"); f[80 + (a % (paylen * 8)) / 8] ^= (uint8_t)(1u << (a % 8)); r.cls("payload_corrupted"); }
    std::vector<uint8_t> tw = f;
    make_twin(tw.data(), env_legacy(wenv) && (c.get("carg") & 1));
    if (unsealed) put32(&tw[ref::O_MCRC], 0);
    InBuf fa(f, c.get("ro", 0) != 0), fb(tw, c.get("ro", 0) != 0);
    if (c.get("ro", 0)) r.cls("read_only_inputs");
    fragment_metadata_t ma, mb; memset(&ma, 0x11, sizeof ma); memset(&mb, 0x22, sizeof mb);
    set_env(renv);
    int ra = liberasurecode_get_fragment_metadata(fa.p, &ma);
    int rb = liberasurecode_get_fragment_metadata(fb.p, &mb);
    set_env(0);
    bool expect_ok = !lv || !unsealed || (uint32_t)lv < ref::V120;
    if (expect_ok && ra != 0) r.fail("native fragment rejected by the metadata query rc=" + std::to_string(ra));
    if (!expect_ok && ra == 0) r.fail("native fragment of a release >= 1.2.0 without a metadata checksum accepted by the metadata query");
    if (ra != rb) r.fail("return codes differ: native " + std::to_string(ra) + ", opposite-endian twin " + std::to_string(rb));
    if (ra == 0 && rb == 0) {
        auto cmp = [&](const char *name, uint64_t x, uint64_t y) { if (x != y) r.fail(std::string("field ") + name + ": native " + std::to_string(x) + " vs twin " + std::to_string(y)); };
        cmp("idx", ma.idx, mb.idx); cmp("size", ma.size, mb.size); cmp("frag_backend_metadata_size", ma.frag_backend_metadata_size, mb.frag_backend_metadata_size);
        cmp("orig_data_size", ma.orig_data_size, mb.orig_data_size); cmp("chksum_type", ma.chksum_type, mb.chksum_type);
        for (int i = 0; i < 8; i++) cmp(("chksum[" + std::to_string(i) + "]").c_str(), ma.chksum[i], mb.chksum[i]);
        cmp("chksum_mismatch", ma.chksum_mismatch, mb.chksum_mismatch); cmp("backend_id", ma.backend_id, mb.backend_id);
        cmp("backend_version", ma.backend_version, mb.backend_version);
        if (f[ref::O_CT] == 2 && (ma.chksum_mismatch != 0) != corrupt && !c.get("asym")) r.fail("native mismatch flag does not reflect the payload corruption");
    }
    int va = is_invalid_fragment_header(fa.p), vb = is_invalid_fragment_header(fb.p);
    if (va != vb) r.fail("header validation verdicts differ: native " + std::to_string(va) + " twin " + std::to_string(vb));
    if (memcmp(fb.p, tw.data(), tw.size())) r.fail("metadata query modified the twin");
    r.nontrivial = f[ref::O_CT] == 2 && corrupt;
    if (f[ref::O_CT] == 2) r.cls("crc32");
    return r;
}
static Case gen_c11() {
    Case c;
    gen_small_base(c);
    if (coin(2, 3)) c.set("frag", pick(1, 31));
    c.set("asym", coin() ? 1 : 0);
    c.set("asym_seed", (int64_t)pick_seed());
    c.set("corrupt", coin() ? 1 : 0);
    c.set("carg", pick(0, 1 << 24));
    c.set("wenv", weighted({5, 1, 1, 4, 1}));
    c.set("renv", weighted({5, 1, 1, 3, 1}));
    if (coin(1, 25)) c.set("pal", 1);
    if (coin(1, 3)) {
        int64_t v = weighted({3, 2, 1}) == 0 ? ((int64_t)1 << 16) | (pick(0, 1) << 8) | pick(0, 9)        // 1.0.x / 1.1.x
                                              : (pick(0, 2) << 16) | (pick(0, 9) << 8) | pick(0, 9);
        if (v == 0) v = 1;
        c.set("libver", v);
        c.set("libver_seal", ((uint32_t)v < ref::V120 ? coin(1, 3) : coin(4, 5)) ? 1 : 0);
    }
    c.set("ro", coin() ? 1 : 0);       // inputs on read-only pages (a query may not write into a fragment, not even temporarily)
    return c;
}

// ============================================================================================ C12
enum { E_NONE = 0, E_IDX, E_BEID, E_BEVER, E_LIBVER, E_TWIN, E_PAYLOAD, E_STALE, E_FLAG, E_MAGIC, E_PAIR };
static Result run_c12(const Case &c) {
    Result r;
    Config gi = cfg_from(c, "i_"), gj = cfg_from(c);
    if ((ref::is_isa(gi.backend) || ref::is_isa(gj.backend)) && !isa_available()) { r.skipped = true; return r; }
    Base b;
    make_base(b, c, (int)c.get("wenv", 0));       // producer may write the historical CRC; validity must not depend on it
    if (!b.ok) { r.fail(b.err); return r; }
    bool same = c.get("same_instance") != 0;
    std::unique_ptr<Instance> vi;
    int vdesc;
    if (same) { vdesc = b.in->desc; gi = gj; }
    else { vi.reset(new Instance(gi)); if (!vi->ok()) { r.fail("create validator refused"); return r; } vdesc = vi->desc; }
    uint32_t running = liberasurecode_get_version();
    int nj = gj.n(), ni = gi.n();
    // every fragment just encoded validates as good for its own instance
    if (same) {
        for (int i = 0; i < nj; i++) {
            InBuf fb(b.s.frags[i], c.get("ro", 0) != 0);
            if (is_invalid_fragment(vdesc, fb.p) != 0) { r.fail("fragment " + std::to_string(i) + " just encoded by the instance is reported invalid"); break; }
        }
        std::vector<const std::vector<uint8_t> *> frs;
        for (int i = 0; i < nj; i++) frs.push_back(&b.s.frags[i]);
        FragSet fs; fs.build(frs, {});
        int vr = liberasurecode_verify_stripe_metadata(vdesc, fs.ptrs, fs.count);
        if (vr != 0) r.fail("verify_stripe_metadata rc=" + std::to_string(vr) + " on the stripe the instance just encoded");
    }
    int fi = (int)(c.get("frag") % nj);
    std::vector<uint8_t> f = b.s.frags[fi];
    int edit = (int)c.get("edit");
    int64_t a = c.get("earg");
    size_t paylen = f.size() - 80;
    bool resealed_edit = false;
    switch (edit) {
    case E_IDX: {
        const uint32_t vals[] = {0xffffffffu, 0, (uint32_t)(ni - 1), (uint32_t)ni, (uint32_t)(ni + 1), 0x7fffffffu, 0x80000000u, (uint32_t)a, (uint32_t)(nj), (uint32_t)(a % 40)};
        put32(&f[ref::O_IDX], vals[(a >> 8) % 10]); ref::reseal(f.data(), (a & 1) != 0); resealed_edit = true; break; }
    case E_BEID: f[ref::O_BEID] = (uint8_t)a; ref::reseal(f.data()); resealed_edit = true; break;
    case E_BEVER: { uint32_t v = get32(&f[ref::O_BEVER]); int64_t k = (a >> 8) % 4; v = k == 0 ? v + 1 : k == 1 ? v - 1 : k == 2 ? (uint32_t)a * 2654435761u : ref::backend_version(gi.backend); put32(&f[ref::O_BEVER], v); ref::reseal(f.data()); resealed_edit = true; break; }
    case E_LIBVER: {
        const uint32_t vals[] = {running, running + 1, 0x010200, 0x0101ff, 0, running - 1, 0xffffffffu, 0x010000};
        put32(&f[ref::O_LIBVER], vals[(a >> 8) % 8]); ref::reseal(f.data()); resealed_edit = true; break; }
    case E_TWIN: make_twin(f.data()); break;
    case E_PAYLOAD: if (paylen) f[80 + (a % (paylen * 8)) / 8] ^= (uint8_t)(1u << (a % 8)); break;
    case E_STALE: f[(a >> 8) % 59] ^= (uint8_t)(1 + a % 255); break;
    case E_PAIR: {      // two fields edited together (each edit alone is covered above): backend id AND backend version, or index AND id
        const uint32_t vers[] = {0, ref::backend_version(ref::B_NULL), ref::backend_version(gi.backend), (uint32_t)a * 2654435761u};
        if ((a >> 4) & 1) { f[ref::O_BEID] = (uint8_t)((a >> 8) % 3 == 0 ? 0 : (a >> 8)); put32(&f[ref::O_BEVER], vers[(a >> 16) % 4]); }
        else { put32(&f[ref::O_IDX], (uint32_t)((a >> 8) % (ni + 2))); f[ref::O_BEID] = (uint8_t)((a >> 16) % 9); }
        if ((a >> 5) & 1) put32(&f[ref::O_BEVER], 0);
        ref::reseal(f.data(), (a & 1) != 0); resealed_edit = true; break; }
    case E_MAGIC: { const uint32_t vals[] = {0, bswap32(ref::MAGIC), ref::MAGIC ^ 1u, (uint32_t)a}; put32(&f[ref::O_MAGIC], vals[(a >> 8) % 4]); break; }    // outside the metadata checksum: nothing to re-seal
    case E_FLAG: if (f[ref::O_CT] == 2) { f[ref::O_MISM] = 1; ref::reseal(f.data()); resealed_edit = true; } break;   // recomputed by the query when CRC32
    }
    bool want_invalid = ref::fragment_invalid(gi, running, f.data());
    {
        InBuf fb(f, c.get("ro", 0) != 0);
        int inv = is_invalid_fragment(vdesc, fb.p);
        if ((inv != 0) != want_invalid)
            r.fail(std::string("is_invalid_fragment=") + std::to_string(inv) + " but the reference verdict is " + (want_invalid ? "invalid" : "valid") +
                   " (edit " + std::to_string(edit) + ", validator " + be_name(gi.backend) + " k=" + std::to_string(gi.k) + " m=" + std::to_string(gi.m) +
                   ", fragment idx field=" + std::to_string(get32(&f[ref::O_IDX])) + " backend id=" + std::to_string(f[ref::O_BEID]) + ")");
        if (memcmp(fb.p, f.data(), f.size())) r.fail("is_invalid_fragment modified the fragment");
    }
    // stripe verification over native fragments: one edited + some untouched ones of J
    if (edit != E_TWIN) {
        std::vector<std::vector<uint8_t>> set;
        int pos = (int)(a % 3);
        for (int i = 0; i < std::min(nj, 3); i++) if (i != fi) set.push_back(b.s.frags[i]);
        set.insert(set.begin() + std::min<size_t>(pos, set.size()), f);
        bool want_bad = false;
        for (auto &x : set) {
            uint32_t idx = get32(&x[ref::O_IDX]);
            bool bad = idx >= (uint32_t)ni || x[ref::O_BEID] != (uint8_t)gi.backend ||
                       !ref::accepts_hook()(gi.backend, get32(&x[ref::O_BEVER])) || x[ref::O_MISM] == 1;
            if (bad) want_bad = true;
        }
        // what is supplied: whole fragments, or the metadata alone ("used to verify stripes in verify_stripe_metadata()",
        // 59 bytes per entry in exact-size buffers) - 1: the stored metadata, 2: what the metadata query returns for it
        int md_form = (int)c.get("md_form", 0);
        if (md_form) {
            for (auto &x : set) {
                std::vector<uint8_t> blob(x.begin(), x.begin() + ref::META_LEN);
                if (md_form == 2) {
                    InBuf whole(x, false);
                    fragment_metadata_t md; memset(&md, 0, sizeof md);
                    if (liberasurecode_get_fragment_metadata(whole.p, &md) == 0) memcpy(blob.data(), &md, ref::META_LEN);
                }
                x = blob;
            }
            want_bad = false;
            for (auto &x : set) {
                uint32_t idx = get32(&x[ref::O_IDX]);
                if (idx >= (uint32_t)ni || x[ref::O_BEID] != (uint8_t)gi.backend || !ref::accepts_hook()(gi.backend, get32(&x[ref::O_BEVER])) || x[ref::O_MISM] == 1) want_bad = true;
            }
            r.cls("stripe_verification_on_metadata_blobs");
        }
        std::vector<const std::vector<uint8_t> *> frs;
        for (auto &x : set) frs.push_back(&x);
        FragSet fs; fs.build(frs, {});
        int vr = liberasurecode_verify_stripe_metadata(vdesc, fs.ptrs, fs.count);
        if (want_bad && vr >= 0) r.fail("verify_stripe_metadata returned " + std::to_string(vr) + " although a fragment fails the index/backend-id/backend-version/mismatch-flag test");
        if (!want_bad && vr != 0) r.fail("verify_stripe_metadata returned " + std::to_string(vr) + " although every fragment passes");
        if (!fs.unchanged()) r.fail("verify_stripe_metadata modified a fragment");
    }
    r.cls("edit_" + std::to_string(edit));
    r.cls(want_invalid ? "ref_invalid" : "ref_valid");
    r.cls(same ? "same_instance" : (gi.backend == gj.backend ? "other_instance_same_backend" : "other_backend"));
    r.nontrivial = resealed_edit;
    return r;
}
static Case gen_c12() {
    Case c;
    gen_small_base(c);
    Config gj = cfg_from(c);
    bool same = coin();
    c.set("same_instance", same ? 1 : 0);
    Config gi = gj;
    if (!same) {
        int kind = weighted({3, 2, 2});
        if (kind == 0) gi = gen_config(G_ALL);               // anything
        else if (kind == 1) { gi.ct = gj.ct == CT_NONE ? CT_CRC32 : CT_NONE; }   // same shape, other ct
        else if (gj.backend != ref::B_XOR) { gi.k = (int)pick(1, 16); gi.m = (int)pick(1, 16); gi.hd = gi.m; }   // same back end, other shape
    }
    cfg_to(c, gi, "i_");
    c.set("edit", weighted({1, 5, 3, 3, 3, 1, 2, 2, 1, 2, 4}));
    c.set("md_form", weighted({3, 1, 1}));
    c.set("earg", pick(0, 1ll << 31));
    c.set("wenv", weighted({6, 1, 1, 3, 1}));
    c.set("ro", coin() ? 1 : 0);       // inputs on read-only pages (a query may not write into a fragment, not even temporarily)
    return c;
}

#ifndef HARNESS_NO_MAIN
int main(int argc, char **argv) {
    Harness h;
    h.prop = "C09";
    h.mode("c09", [] { rc_property("C09 header acceptance", gen_c09, run_c09); }, run_c09);
    h.mode("c09_sweep", sweep_c09, run_c09);
    h.mode("c10", [] { rc_property("C10 payload checksums", gen_c10, run_c10); }, run_c10);
    h.mode("c10_sweep", sweep_c10, run_c10);
    h.mode("c10_alt", [] { rc_property("C10 legacy CRC model", gen_c10_alt, run_c10_alt); }, run_c10_alt);
    h.mode("c11", [] { rc_property("C11 opposite-endian twin", gen_c11, run_c11); }, run_c11);
    h.mode("c12", [] { rc_property("C12 fragment validation", gen_c12, run_c12); }, run_c12);
    return harness_main(argc, argv, h);
}
#endif
