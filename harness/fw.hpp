// Harness framework: case files, statistics/evidence, rapidcheck glue, replay, crash capture.
#pragma once
#include <rapidcheck.h>
#include <cstdint>
#include <cstdio>
#include <cstdlib>
#include <cstring>
#include <string>
#include <vector>
#include <map>
#include <set>
#include <unordered_set>
#include <deque>
#include <functional>
#include <sstream>
#include <fstream>
#include <algorithm>
#include <unistd.h>
#include <fcntl.h>
#include <sys/stat.h>

extern "C" void __sanitizer_set_death_callback(void (*)(void));
extern "C" int __lsan_do_recoverable_leak_check(void) __attribute__((weak));
extern "C" void __lsan_disable(void);
extern "C" void __lsan_enable(void);

namespace fw {

// ---------------------------------------------------------------- deterministic expander
inline uint64_t splitmix64(uint64_t &s) {
    uint64_t z = (s += 0x9e3779b97f4a7c15ull);
    z = (z ^ (z >> 30)) * 0xbf58476d1ce4e5b9ull;
    z = (z ^ (z >> 27)) * 0x94d049bb133111ebull;
    return z ^ (z >> 31);
}
inline uint64_t fnv1a(const std::string &s) {
    uint64_t h = 1469598103934665603ull;
    for (unsigned char c : s) { h ^= c; h *= 1099511628211ull; }
    return h;
}

// ---------------------------------------------------------------- Case: ordered key -> int list
struct Case {
    std::vector<std::pair<std::string, std::vector<int64_t>>> f;
    bool has(const std::string &k) const { for (auto &p : f) if (p.first == k) return true; return false; }
    const std::vector<int64_t> &list(const std::string &k) const {
        static const std::vector<int64_t> empty;
        for (auto &p : f) if (p.first == k) return p.second;
        return empty;
    }
    int64_t get(const std::string &k, int64_t def = 0) const {
        for (auto &p : f) if (p.first == k) return p.second.empty() ? def : p.second[0];
        return def;
    }
    void set(const std::string &k, int64_t v) { setl(k, std::vector<int64_t>{v}); }
    void setl(const std::string &k, std::vector<int64_t> v) {
        for (auto &p : f) if (p.first == k) { p.second = std::move(v); return; }
        f.emplace_back(k, std::move(v));
    }
    template <class T> void setv(const std::string &k, const std::vector<T> &v) { setl(k, std::vector<int64_t>(v.begin(), v.end())); }
    std::vector<int> ints(const std::string &k) const { auto &l = list(k); return std::vector<int>(l.begin(), l.end()); }
    std::string text() const {
        std::string s;
        for (auto &p : f) {
            s += p.first; s += '=';
            for (size_t i = 0; i < p.second.size(); i++) { if (i) s += ','; s += std::to_string(p.second[i]); }
            s += '\n';
        }
        return s;
    }
    static Case parse(const std::string &txt) {
        Case c; std::istringstream in(txt); std::string line;
        while (std::getline(in, line)) {
            if (line.empty() || line[0] == '#') continue;
            size_t eq = line.find('=');
            if (eq == std::string::npos) continue;
            std::vector<int64_t> v; std::string rest = line.substr(eq + 1); size_t pos = 0;
            while (pos < rest.size()) {
                size_t c2 = rest.find(',', pos);
                std::string tok = rest.substr(pos, c2 == std::string::npos ? std::string::npos : c2 - pos);
                if (!tok.empty()) v.push_back(std::stoll(tok));
                if (c2 == std::string::npos) break;
                pos = c2 + 1;
            }
            c.f.emplace_back(line.substr(0, eq), v);
        }
        return c;
    }
};

// buffer description inside a case: <name>_cls, <name>_seed, <name>_len, and <name>_bytes when short
enum { BUF_RANDOM = 0, BUF_ZERO, BUF_FF, BUF_CONST, BUF_UNIT, BUF_COUNTER, BUF_HIGH, BUF_EXPLICIT, BUF_PERIODIC, BUF_SPARSE, BUF_NCLS };
inline std::vector<uint8_t> expand_buffer(const Case &c, const std::string &name) {
    int cls = (int)c.get(name + "_cls"); uint64_t seed = (uint64_t)c.get(name + "_seed"); size_t len = (size_t)c.get(name + "_len");
    std::vector<uint8_t> b(len, 0);
    if (cls == BUF_EXPLICIT) { auto &l = c.list(name + "_bytes"); for (size_t i = 0; i < len && i < l.size(); i++) b[i] = (uint8_t)l[i]; return b; }
    uint64_t s = seed;
    switch (cls) {
    case BUF_RANDOM: for (size_t i = 0; i < len; i += 8) { uint64_t r = splitmix64(s); for (size_t j = 0; j < 8 && i + j < len; j++) b[i + j] = (uint8_t)(r >> (8 * j)); } break;
    case BUF_ZERO: break;
    case BUF_FF: std::fill(b.begin(), b.end(), 0xff); break;
    case BUF_CONST: std::fill(b.begin(), b.end(), (uint8_t)(seed | 1)); break;
    case BUF_UNIT: if (len) b[splitmix64(s) % len] = (uint8_t)(1 + splitmix64(s) % 255); break;
    case BUF_COUNTER: for (size_t i = 0; i < len; i++) b[i] = (uint8_t)(i + seed); break;
    case BUF_SPARSE: {       // a sparse object: zeros with a few short non-zero runs (holes before, between and after them)
        int runs = 1 + (int)(splitmix64(s) % 5);
        for (int q = 0; q < runs && len; q++) { size_t at = splitmix64(s) % len, n = 1 + splitmix64(s) % 12; for (size_t i = at; i < at + n && i < len; i++) b[i] = (uint8_t)(1 + splitmix64(s) % 255); }
        break; }
    case BUF_PERIODIC: { static const int per[] = {2, 3, 4, 4, 8, 16, 5, 32}; int p = per[seed % 8]; uint8_t pat[32]; for (int i = 0; i < p; i++) pat[i] = (uint8_t)splitmix64(s); if (p >= 4 && pat[0] == pat[2] && pat[1] == pat[3]) pat[2] ^= 0x5a; for (size_t i = 0; i < len; i++) b[i] = pat[i % p]; break; }
    case BUF_HIGH: for (size_t i = 0; i < len; i += 8) { uint64_t r = splitmix64(s) | 0x8080808080808080ull; for (size_t j = 0; j < 8 && i + j < len; j++) b[i + j] = (uint8_t)(r >> (8 * j)); } break;
    }
    return b;
}
inline bool buffer_is_constant(const std::vector<uint8_t> &b) {
    for (size_t i = 1; i < b.size(); i++) if (b[i] != b[0]) return false;
    return true;
}

// ---------------------------------------------------------------- result of one case
struct Result {
    bool ok = true;
    std::string msg;
    bool nontrivial = false;
    std::vector<std::string> classes;
    bool skipped = false;      // excluded (known finding region) - counted separately
    bool window = false;       // the verdict may depend on earlier cases of this process (pooled instance): save them too
    bool fatal = false;        // process state is poisoned (e.g. LeakSanitizer is sticky): save this case unshrunk and stop
    void fail(const std::string &m) { if (ok) { ok = false; msg = m; } }
    void cls(const std::string &c) { classes.push_back(c); }
};

// ---------------------------------------------------------------- statistics
struct Stats {
    std::string prop, mode, outpath, faildir = "failures", inflight_path;
    int inflight_fd = -1;
    uint64_t evaluations = 0, nontrivial = 0, skipped = 0, failures = 0, shrink_evals = 0;
    std::unordered_set<uint64_t> nt_hashes;
    std::map<std::string, uint64_t> hist;
    std::string first_sample, last_sample;
    std::map<uint64_t, std::string> low_hash_samples;   // three smallest hashes = deterministic reservoir
    std::vector<std::string> fail_files;
    std::vector<std::string> notes;
    std::map<std::string, int64_t> extra;               // sub-space sizes etc.
    bool exhaustive = false;
    bool shrinking = false;
    bool replaying = false;
    std::string lastfail_text, lastfail_msg;
    std::deque<std::string> recent;     // texts of the most recent cases (for leak attribution)
    uint64_t since_leak_check = 0;

    void begin_case(const Case &c) {
        if (inflight_fd < 0 && !inflight_path.empty()) inflight_fd = open(inflight_path.c_str(), O_CREAT | O_WRONLY | O_TRUNC, 0644);
        if (inflight_fd >= 0) {
            std::string t = c.text();
            if (pwrite(inflight_fd, t.data(), t.size(), 0) < 0) {}
            if (ftruncate(inflight_fd, (off_t)t.size()) < 0) {}
        }
    }
    void record(const Case &c, const Result &r) {
        if (shrinking) { shrink_evals++; }
        else {
            evaluations++;
            if (r.skipped) skipped++;
            for (auto &k : r.classes) hist[k]++;
            if (r.nontrivial && !r.skipped) {
                std::string t = c.text();
                uint64_t h = fnv1a(t);
                if (nt_hashes.insert(h).second) {
                    nontrivial++;
                    if (first_sample.empty()) first_sample = t;
                    last_sample = t;
                    low_hash_samples[h] = t;
                    if (low_hash_samples.size() > 3) low_hash_samples.erase(std::prev(low_hash_samples.end()));
                }
            }
        }
        if (!r.ok) { lastfail_text = c.text(); lastfail_msg = r.msg; }
    }
    std::string save_failure(const std::string &text, const std::string &msg) {
        mkdir(faildir.c_str(), 0755);
        char name[256];
        snprintf(name, sizeof name, "%s/%s-%016llx.case", faildir.c_str(), prop.c_str(), (unsigned long long)fnv1a(mode + "\n" + text));
        std::ofstream o(name);
        o << "# property=" << prop << " mode=" << mode << "\n# " << msg.substr(0, 400) << "\nmode_name_hash=" << (int64_t)(fnv1a(mode) & 0x7fffffff) << "\n" << text;
        o.close();
        failures++;
        fail_files.push_back(name);
        printf("FAIL property=%s case=%s msg=%s\n", prop.c_str(), name, msg.substr(0, 300).c_str());
        fflush(stdout);
        return name;
    }
    static std::string jesc(const std::string &s) {
        std::string o;
        for (unsigned char c : s) {
            if (c == '"' || c == '\\') { o += '\\'; o += c; }
            else if (c == '\n') o += "\\n";
            else if (c < 0x20) { char b[8]; snprintf(b, sizeof b, "\\u%04x", c); o += b; }
            else o += c;
        }
        return o;
    }
    void flush() {
        if (outpath.empty()) return;
        std::string tmp = outpath + ".tmp";
        FILE *o = fopen(tmp.c_str(), "w");
        if (!o) return;
        fprintf(o, "{\"prop\":\"%s\",\"mode\":\"%s\",\"evaluations\":%llu,\"nontrivial\":%llu,\"skipped\":%llu,\"failures\":%llu,\"shrink_evals\":%llu,\"exhaustive\":%s,\n",
                prop.c_str(), mode.c_str(), (unsigned long long)evaluations, (unsigned long long)nontrivial, (unsigned long long)skipped,
                (unsigned long long)failures, (unsigned long long)shrink_evals, exhaustive ? "true" : "false");
        fprintf(o, "\"hist\":{");
        bool first = true;
        for (auto &p : hist) { fprintf(o, "%s\"%s\":%llu", first ? "" : ",", jesc(p.first).c_str(), (unsigned long long)p.second); first = false; }
        fprintf(o, "},\n\"extra\":{");
        first = true;
        for (auto &p : extra) { fprintf(o, "%s\"%s\":%lld", first ? "" : ",", jesc(p.first).c_str(), (long long)p.second); first = false; }
        fprintf(o, "},\n\"samples\":[");
        std::vector<std::string> ss;
        if (!first_sample.empty()) ss.push_back(first_sample);
        for (auto &p : low_hash_samples) if (p.second != first_sample && p.second != last_sample) ss.push_back(p.second);
        if (!last_sample.empty() && last_sample != first_sample) ss.push_back(last_sample);
        for (size_t i = 0; i < ss.size(); i++) fprintf(o, "%s\"%s\"", i ? "," : "", jesc(ss[i].substr(0, 1500)).c_str());
        fprintf(o, "],\n\"fail_files\":[");
        for (size_t i = 0; i < fail_files.size(); i++) fprintf(o, "%s\"%s\"", i ? "," : "", jesc(fail_files[i]).c_str());
        fprintf(o, "],\n\"notes\":[");
        for (size_t i = 0; i < notes.size(); i++) fprintf(o, "%s\"%s\"", i ? "," : "", jesc(notes[i]).c_str());
        fprintf(o, "]}\n");
        fclose(o);
        rename(tmp.c_str(), outpath.c_str());
        // hashes of distinct non-trivial cases, for the driver's cross-process union
        std::string hp = outpath + ".hashes";
        FILE *h = fopen(hp.c_str(), "wb");
        if (h) { for (uint64_t x : nt_hashes) fwrite(&x, 8, 1, h); fclose(h); }
    }
};
inline Stats &stats() { static Stats *s = new Stats; return *s; }   // never destroyed: used from the sanitizer death callback during exit

inline void death_callback() {
    Stats &s = stats();
    // a sanitizer report is ending the process: the in-flight case is the failing one
    std::string text;
    if (!s.inflight_path.empty()) { std::ifstream in(s.inflight_path); std::stringstream ss; ss << in.rdbuf(); text = ss.str(); }
    if (!text.empty()) s.save_failure(text, "sanitizer report / abort while executing this case (see stderr log)");
    s.flush();
}

// ---------------------------------------------------------------- options
struct Options {
    std::string mode, replay, out, tier = "quick", exclude;
    int64_t n = 100, size = 100, seed = 1, shard = 0, nshards = 1;
    std::map<std::string, std::string> kv;
    bool excluded(const std::string &tag) const { return ("," + exclude + ",").find("," + tag + ",") != std::string::npos; }
    int64_t geti(const std::string &k, int64_t d) const { auto it = kv.find(k); return it == kv.end() ? d : std::stoll(it->second); }
};
inline Options &opts() { static Options *o = new Options; return *o; }

using RunFn = std::function<Result(const Case &)>;
using GenFn = std::function<Case()>;

// execute one case with book-keeping; returns the result
// periodic LeakSanitizer check: a leak is attributed to the window of recent cases, which is saved as
// one multi-case replay file (cases separated by a line "---"); LSan is sticky, so the process stops.
inline void leak_window_check(bool force) {
    Stats &s = stats();
    if (!__lsan_do_recoverable_leak_check) return;
    if (!force && s.since_leak_check < 4096) return;
    s.since_leak_check = 0;
    if (__lsan_do_recoverable_leak_check() == 0) { s.recent.clear(); return; }
    std::string multi;
    for (auto &t : s.recent) { if (!multi.empty()) multi += "---\n"; multi += t; }
    s.save_failure(multi, "LeakSanitizer: memory leaked by one of the last " + std::to_string(s.recent.size()) + " cases (multi-case replay file)");
    s.flush();
    fflush(stdout);
    _exit(1);
}
inline Result exec_case(const Case &c, const RunFn &run) {
    Stats &s = stats();
    s.begin_case(c);
    Result r = run(c);
    s.record(c, r);
    if (s.replaying) return r;
    s.recent.push_back(c.text());
    if (s.recent.size() > 4500) s.recent.pop_front();
    s.since_leak_check++;
    if (r.window && !r.ok) {
        std::string multi;
        for (auto &t : s.recent) { if (!multi.empty()) multi += "---\n"; multi += t; }
        s.save_failure(multi, r.msg + " [history of " + std::to_string(s.recent.size()) + " cases on long-lived instances; the last one failed]");
        s.flush();
        fflush(stdout);
        _exit(1);
    }
    if (r.fatal && !r.ok) {
        s.save_failure(c.text(), r.msg);
        s.flush();
        fflush(stdout);
        _exit(1);
    }
    if (r.ok) leak_window_check(false);
    return r;
}

// sweep helper: executes, saves failures (up to a cap), returns ok
inline bool sweep_case(const Case &c, const RunFn &run) {
    Stats &s = stats();
    Result r = exec_case(c, run);
    if (!r.ok) {
        if (s.failures < 5) s.save_failure(c.text(), r.msg);
        else s.failures++;
    }
    return r.ok;
}

// rapidcheck-driven property: gen() draws with *rc::gen inside; run() is the oracle.
inline bool rc_property(const std::string &name, const GenFn &gen, const RunFn &run) {
    Stats &s = stats();
    Options &o = opts();
    std::string params = "seed=" + std::to_string(o.seed == 0 ? 1 : o.seed) + " max_success=" + std::to_string(o.n) +
                         " max_size=" + std::to_string(o.size) + " max_discard_ratio=20 noshrink=0";
    setenv("RC_PARAMS", params.c_str(), 1);
    uint64_t fails_before = 0;
    bool seen_fail = false;
    bool ok = rc::check(name, [&]() {
        Case c = gen();
        if (seen_fail) s.shrinking = true;
        Result r = exec_case(c, run);
        if (!r.ok) { seen_fail = true; }
        (void)fails_before;
        if (!r.ok) RC_FAIL(r.msg);
    });
    s.shrinking = false;
    if (!ok && !s.lastfail_text.empty()) s.save_failure(s.lastfail_text, s.lastfail_msg);
    else if (!ok) { s.notes.push_back("rapidcheck reported failure without a failing case (gave up?)"); }
    return ok;
}

// small generator helpers (always resized so ranges do not collapse at small sizes)
inline int64_t pick(int64_t lo, int64_t hi) {   // inclusive
    return *rc::gen::resize(100, rc::gen::inRange<int64_t>(lo, hi + 1));
}
// shrinks toward lo; scaled pick for values that should grow with size
inline int64_t pick_sized(int64_t lo, int64_t hi) { return *rc::gen::inRange<int64_t>(lo, hi + 1); }
inline bool coin(int num = 1, int den = 2) { return pick(0, den - 1) < num; }
inline int weighted(std::initializer_list<int> w) {
    int tot = 0; for (int x : w) tot += x;
    int r = (int)pick(0, tot - 1), i = 0;
    for (int x : w) { if (r < x) return i; r -= x; i++; }
    return 0;
}
inline uint64_t pick_seed() { return (uint64_t)pick(0, (1ll << 40)); }
// generate a buffer description into the case
inline void gen_buffer(Case &c, const std::string &name, size_t len, int forced_cls = -1) {
    int cls = forced_cls >= 0 ? forced_cls : weighted({8, 1, 1, 1, 2, 1, 2, 0, 2, 3});      // index = BUF_* class (EXPLICIT is chosen below)
    if (len > 0 && len <= 48 && forced_cls < 0 && coin(2, 3)) {
        // element-wise so that it shrinks
        std::vector<int64_t> b(len);
        for (auto &x : b) x = weighted({1, 3}) == 0 ? 0 : pick(0, 255);
        c.set(name + "_cls", BUF_EXPLICIT); c.set(name + "_seed", 0); c.set(name + "_len", (int64_t)len); c.setl(name + "_bytes", b);
        return;
    }
    c.set(name + "_cls", cls); c.set(name + "_seed", (int64_t)pick_seed()); c.set(name + "_len", (int64_t)len);
}

// ---------------------------------------------------------------- main dispatch
struct Mode { std::string name; std::function<void()> fn; };
struct Harness {
    std::string prop;
    std::vector<Mode> modes;
    std::map<std::string, RunFn> replayers;   // mode name -> run function used for replay
    void mode(const std::string &n, std::function<void()> f, RunFn replayer = nullptr) {
        modes.push_back({n, f});
        if (replayer) replayers[n] = replayer;
    }
};

inline int harness_main(int argc, char **argv, Harness &h) {
    Options &o = opts();
    for (int i = 1; i < argc; i++) {
        std::string a = argv[i];
        auto next = [&]() -> std::string { return i + 1 < argc ? argv[++i] : ""; };
        if (a == "--mode") o.mode = next();
        else if (a == "--replay") o.replay = next();
        else if (a == "--out") o.out = next();
        else if (a == "--tier") o.tier = next();
        else if (a == "--n") o.n = std::stoll(next());
        else if (a == "--size") o.size = std::stoll(next());
        else if (a == "--seed") o.seed = std::stoll(next());
        else if (a == "--exclude") o.exclude = next();
        else if (a == "--prop") h.prop = next();
        else if (a == "--shard") { std::string v = next(); size_t sl = v.find('/'); o.shard = std::stoll(v.substr(0, sl)); o.nshards = std::stoll(v.substr(sl + 1)); }
        else if (a.rfind("--", 0) == 0) { o.kv[a.substr(2)] = next(); }
    }
    Stats &s = stats();
    s.prop = h.prop; s.mode = o.mode; s.outpath = o.out;
    if (const char *fd = getenv("VERIF_FAILDIR")) s.faildir = fd;
    if (!o.out.empty()) s.inflight_path = o.out + ".inflight";
    __sanitizer_set_death_callback(death_callback);
    setvbuf(stdout, nullptr, _IOLBF, 0);
    if (!o.replay.empty()) {
        std::ifstream in(o.replay);
        if (!in) { fprintf(stderr, "cannot open %s\n", o.replay.c_str()); return 2; }
        std::stringstream ss; ss << in.rdbuf();
        std::string txt = ss.str();
        // mode from the header comment
        std::string mode = o.mode;
        size_t mp = txt.find(" mode=");
        if (mode.empty() && mp != std::string::npos) { size_t e = txt.find('\n', mp); mode = txt.substr(mp + 6, e - mp - 6); }
        s.mode = mode;
        auto it = h.replayers.find(mode);
        if (it == h.replayers.end()) { fprintf(stderr, "no replayer for mode '%s'\n", mode.c_str()); return 2; }
        s.inflight_path.clear();
        s.replaying = true;
        std::vector<std::string> parts;
        { size_t pos = 0; for (;;) { size_t e = txt.find("\n---\n", pos); if (e == std::string::npos) { parts.push_back(txt.substr(pos)); break; } parts.push_back(txt.substr(pos, e - pos + 1)); pos = e + 5; } }
        for (auto &part : parts) {
            Case c = Case::parse(part);
            Result r = it->second(c);
            if (!r.ok) { printf("REPLAY-FAIL property=%s msg=%s\n", h.prop.c_str(), r.msg.substr(0, 400).c_str()); fflush(stdout); _exit(1); }
        }
        if (__lsan_do_recoverable_leak_check && __lsan_do_recoverable_leak_check() != 0) { printf("REPLAY-FAIL property=%s msg=LeakSanitizer: leak after replaying %zu case(s)\n", h.prop.c_str(), parts.size()); fflush(stdout); _exit(1); }
        printf("REPLAY-PASS property=%s\n", h.prop.c_str());
        return 0;
    }
    for (auto &m : h.modes) if (m.name == o.mode) {
        m.fn();
        if (!s.failures) leak_window_check(true);
        s.flush();
        fflush(stdout);
        return s.failures ? 1 : 0;
    }
    fprintf(stderr, "unknown mode '%s'\n", o.mode.c_str());
    return 2;
}

}  // namespace fw
