// Verif-owned declarations of the liberasurecode public ABI (no repo header is included by any
// harness; abi_probe.c, compiled against the tree's headers on every run, guards these).
#pragma once
#include <cstdint>
#include <cstddef>
#include <cstdarg>
#include <cstdio>
#include <cstdlib>
#include <cstring>

extern "C" {

struct ec_args {
    int k, m, w, hd;
    union {
        struct { uint64_t arg1; } null_args;
        struct { uint64_t x, y, z, a; } reserved;
    } priv_args1;
    void *priv_args2;
    int ct;
};

typedef struct __attribute__((__packed__)) {
    uint32_t idx, size, frag_backend_metadata_size;
    uint64_t orig_data_size;
    uint8_t chksum_type;
    uint32_t chksum[8];
    uint8_t chksum_mismatch, backend_id;
    uint32_t backend_version;
} fragment_metadata_t;

int liberasurecode_backend_available(unsigned id);
int liberasurecode_instance_create(unsigned id, struct ec_args *args);
int liberasurecode_instance_destroy(int desc);
int liberasurecode_encode(int desc, const char *orig_data, uint64_t orig_data_size,
                          char ***encoded_data, char ***encoded_parity, uint64_t *fragment_len);
int liberasurecode_encode_cleanup(int desc, char **encoded_data, char **encoded_parity);
int liberasurecode_decode(int desc, char **available_fragments, int num_fragments,
                          uint64_t fragment_len, int force_metadata_checks, char **out_data,
                          uint64_t *out_data_len);
int liberasurecode_decode_cleanup(int desc, char *data);
int liberasurecode_reconstruct_fragment(int desc, char **available_fragments, int num_fragments,
                                        uint64_t fragment_len, int destination_idx,
                                        char *out_fragment);
int liberasurecode_fragments_needed(int desc, int *fragments_to_reconstruct,
                                    int *fragments_to_exclude, int *fragments_needed);
int liberasurecode_get_fragment_metadata(char *fragment, fragment_metadata_t *fragment_metadata);
int is_invalid_fragment(int desc, char *fragment);
int liberasurecode_verify_stripe_metadata(int desc, char **fragments, int num_fragments);
int liberasurecode_get_aligned_data_size(int desc, uint64_t data_len);
int liberasurecode_get_minimum_encode_size(int desc);
int liberasurecode_get_fragment_size(int desc, int data_len);
uint32_t liberasurecode_get_version(void);

// exported, not in erasurecode.h
int is_invalid_fragment_header(void *header);
int liberasurecode_crc32_alt(int crc, const void *buf, size_t size);
extern int next_backend_desc;
void *liberasurecode_backend_instance_get_by_desc(int desc);
}

enum { BE_NULL = 0, BE_JER_VAND = 1, BE_JER_CAUCHY = 2, BE_XOR = 3, BE_ISA_VAND = 4, BE_SHSS = 5,
       BE_RS = 6, BE_ISA_CAUCHY = 7, BE_PHAZR = 8, BE_MAX = 9 };
enum { CT_NONE = 1, CT_CRC32 = 2, CT_MD5 = 3 };
enum { E_BACKENDNOTSUPP = 200, E_ECMETHODNOTIMPL = 201, E_BACKENDINITERR = 202,
       E_BACKENDINUSE = 203, E_BACKENDNOTAVAIL = 204, E_BADCHKSUM = 205, E_INVALIDPARAMS = 206,
       E_BADHEADER = 207, E_INSUFFFRAGS = 208 };
static const uint32_t FRAG_MAGIC = 0x0b0c5ecc;
static const int HDR = 80;

// ---- syslog stub ---------------------------------------------------------------------------
// The library logs every error path with LOG_CONS; without /dev/log each message goes to
// /dev/console (16 min wall for 5e5 calls). Interposed here; still formats so ASan sees a bad
// format/argument pair.
extern "C" {
static char g_syslog_scratch[1024];
void vsyslog(int, const char *fmt, va_list ap) { vsnprintf(g_syslog_scratch, sizeof g_syslog_scratch, fmt, ap); }
void syslog(int p, const char *fmt, ...) { va_list ap; va_start(ap, fmt); vsyslog(p, fmt, ap); va_end(ap); }
void __syslog_chk(int p, int, const char *fmt, ...) { va_list ap; va_start(ap, fmt); vsyslog(p, fmt, ap); va_end(ap); }
void __vsyslog_chk(int p, int, const char *fmt, va_list ap) { vsyslog(p, fmt, ap); }
void openlog(const char *, int, int) {}
void closelog(void) {}
}
