// C17: a failing back-end operation surfaces as an error with nothing half-done (fault enumeration)
// Faults are injected through the back ends' exported static operation tables (*_op_stubs), which
// every instance's common.ops points at; test_encode_invalid_args in the repo's suite patches them too.
#include "lib.hpp"
#include <dlfcn.h>
using namespace fw;
using namespace lib;

typedef lec_op_stubs op_stubs;
enum { OPI_INIT, OPI_ENCODE, OPI_DECODE, OPI_RECON, OPI_NEEDED, OPI_N };
static const char *OPIN[] = {"init", "encode", "decode", "reconstruct", "fragments_needed"};

static op_stubs *g_real_tab = nullptr;     // table being patched
static op_stubs g_saved;                   // its original contents
static int g_calls[OPI_N];
struct Fault { int op, callno, mode; };    // mode 0: fail before doing the work, 1: do the work then report failure, 2: other negative code
static std::vector<Fault> g_faults;
static int g_injected;
static int fault_for(int op) {
    int n = g_calls[op]++;
    for (auto &f : g_faults) if (f.op == op && f.callno == n) { g_injected++; return f.mode; }
    return -1;
}
static int g_backend_for_shim = -1;
static int shim_count(int backend) { switch (backend) { case ref::B_RS: return 8; case ref::B_NULL: case ref::B_ISA_V: case ref::B_ISA_C: return 5; } return 0; }
// mode >= 3: run the back end's OWN init against a stand-in plugin handle that makes internal step (mode-3) fail
static void *w_init(void *a, void *h) {
    int f = fault_for(OPI_INIT);
    if (f == 0 || f == 2) return nullptr;
    if (f >= 3) {
        int j = f - 3;
        const char *tag = g_backend_for_shim == ref::B_RS ? "rs" : g_backend_for_shim == ref::B_NULL ? "null" : g_backend_for_shim == ref::B_ISA_V ? "isav" : "isac";
        char name[64]; snprintf(name, sizeof name, "libshim_%s_%d.so", tag, j);
        void *sh = dlopen(name, RTLD_NOW | RTLD_LOCAL);
        if (!sh) { g_injected--; return g_saved.init(a, h); }       // shim not built for this back end/step: no fault
        void *d = g_saved.init(a, sh);
        if (d) { g_saved.exit(d); d = nullptr; }                     // must not happen: the stand-in cannot support an instance
        dlclose(sh);
        return d;
    }
    void *d = g_saved.init(a, h);
    if (f == 1 && d) { g_saved.exit(d); return nullptr; }
    return d;
}
static int w_encode(void *d, char **x, char **y, int b) { int f = fault_for(OPI_ENCODE); if (f == 0) return -1; if (f == 2) return -E_BACKENDINITERR; int r = g_saved.encode(d, x, y, b); return f == 1 ? -1 : r; }
static int w_decode(void *d, char **x, char **y, int *m, int b) { int f = fault_for(OPI_DECODE); if (f == 0) return -1; if (f == 2) return -77; int r = g_saved.decode(d, x, y, m, b); return f == 1 ? -1 : r; }
static int w_recon(void *d, char **x, char **y, int *m, int di, int b) { int f = fault_for(OPI_RECON); if (f == 0) return -1; if (f == 2) return -77; int r = g_saved.reconstruct(d, x, y, m, di, b); return f == 1 ? -1 : r; }
static int w_needed(void *d, int *a, int *b, int *c) { int f = fault_for(OPI_NEEDED); if (f == 0) return -1; if (f == 2) return -77; int r = g_saved.fragments_needed(d, a, b, c); return f == 1 ? -1 : r; }

static op_stubs *table_for(int backend) {
    switch (backend) {
    case ref::B_RS: return &liberasurecode_rs_vand_op_stubs;
    case ref::B_XOR: return &flat_xor_hd_op_stubs;
    case ref::B_NULL: return &null_op_stubs;
    case ref::B_ISA_V: return &isa_l_rs_vand_op_stubs;
    case ref::B_ISA_C: return &isa_l_rs_cauchy_op_stubs;
    }
    return nullptr;
}
struct Patch {
    explicit Patch(int backend) {
        g_backend_for_shim = backend;
        g_real_tab = table_for(backend);
        g_saved = *g_real_tab;
        g_real_tab->init = w_init; g_real_tab->encode = w_encode; g_real_tab->decode = w_decode;
        g_real_tab->reconstruct = w_recon; g_real_tab->fragments_needed = w_needed;
        memset(g_calls, 0, sizeof g_calls); g_injected = 0;
    }
    ~Patch() { *g_real_tab = g_saved; g_real_tab = nullptr; }
};
static const char *soname_for(int backend) {
    switch (backend) { case ref::B_RS: return "liberasurecode_rs_vand.so.1"; case ref::B_NULL: return "libnullcode.so.1"; case ref::B_ISA_V: case ref::B_ISA_C: return "libisal.so.2"; }
    return nullptr;   // libXorcode is a link-time dependency of liberasurecode.so: always resident
}

// workload steps
enum { W_CREATE, W_ENCODE, W_DECODE_DATA, W_DECODE_PARITY, W_RECON_DATA, W_RECON_PARITY, W_NEEDED, W_CREATE2, W_DESTROY2, W_NATURAL_FAIL, W_N };
static const std::vector<int> SCRIPT = {W_CREATE, W_ENCODE, W_ENCODE, W_ENCODE, W_DECODE_DATA, W_DECODE_PARITY, W_RECON_DATA, W_RECON_PARITY, W_NEEDED, W_NEEDED, W_CREATE2, W_DESTROY2, W_ENCODE, W_DECODE_DATA, W_NATURAL_FAIL, W_NATURAL_FAIL, W_NATURAL_FAIL, W_DECODE_DATA};

struct Run {
    Result r;
    Config g;
    int desc = -1, desc2 = -1;
    Stripe s;
    bool real;
    int failed_public = 0;
};

// executes one workload step; when a fault fired during it the public call must have failed (rc<0)
// and an immediate retry (no fault is scheduled for the next call number) must succeed exactly

// which fragments a decode / rebuild step withholds: the chosen one alone, or (wide-parity shapes always, the others in
// a quarter of the steps) as many as the code tolerates, highest parity first - so that failures also happen with long
// lists of missing fragments
static std::vector<bool> erased_set(const Config &g, int lost, int salt) {
    int n = g.n(), t = ref::tolerance(g);
    std::vector<bool> gone(n, false);
    gone[lost] = true;
    int ne = (g.m >= 8 || salt % 4 == 3) ? t : 1;
    for (int i = n - 1, c = 1; i >= 0 && c < ne; i--) if (!gone[i]) { gone[i] = true; c++; }
    return gone;
}

static void do_step(Run &R, int w, int salt) {
    Result &r = R.r;
    const Config &g = R.g;
    int n = g.n();
    auto data_for = [&](int s2) { std::vector<uint8_t> d((size_t)g.k * ref::word_bytes(g) * 2 + (s2 % 3)); uint64_t sd = 7 + s2; for (auto &b : d) b = (uint8_t)splitmix64(sd); return d; };
    for (int attempt = 0; attempt < 2; attempt++) {
        int inj0 = g_injected;
        bool ok = false; int rc = 0; std::string what;
        switch (w) {
        case W_CREATE: case W_CREATE2: {
            int &dd = w == W_CREATE ? R.desc : R.desc2;
            if (dd > 0) return;
            rc = create(g); what = "create";
            if (rc > 0) { dd = rc; ok = true; for (int probe : {R.desc, R.desc2}) if (probe > 0 && liberasurecode_get_minimum_encode_size(probe) <= 0) r.fail("live descriptor not usable after create"); }
            else {
                // failed create leaves nothing behind: both descriptors keep their state
                if (R.desc > 0 && liberasurecode_get_minimum_encode_size(R.desc) <= 0) r.fail("first instance damaged by a failed create");
            }
            break;
        }
        case W_DESTROY2: if (R.desc2 > 0) { rc = liberasurecode_instance_destroy(R.desc2); what = "destroy"; ok = rc == 0; R.desc2 = -1; } else return; break;
        case W_ENCODE: {
            if (R.desc <= 0) return;
            std::vector<uint8_t> d = data_for(salt);
            Stripe st = encode(R.desc, g, d);          // on failure the wrapper makes no cleanup call
            rc = st.rc; what = "encode"; ok = rc == 0;
            if (ok) {
                auto want = ref::serialize_stripe(g, d.data(), d.size(), liberasurecode_get_version(), false);
                for (int i = 0; i < n; i++) if (st.frags[i] != want[i]) { r.fail("encode output differs from the reference after faults"); break; }
                R.s = st;
            }
            break;
        }
        case W_DECODE_DATA: case W_DECODE_PARITY: {
            if (R.desc <= 0 || R.s.rc != 0 || R.s.frags.empty()) return;
            if (g.m < 1) return;
            int lost = w == W_DECODE_DATA ? salt % g.k : g.k + salt % g.m;
            std::vector<const std::vector<uint8_t> *> frs; uint64_t pm = 0;
            std::vector<bool> gone = erased_set(g, lost, salt);
            for (int i = 0; i < n; i++) if (!gone[i]) { frs.push_back(&R.s.frags[i]); pm |= 1ull << i; }
            std::vector<int> al(frs.size(), 0);
            for (size_t ai = 0; ai < al.size(); ai++) al[ai] = ((salt + (int)ai) % 3 == 0) ? 1 + (salt + (int)ai) % 15 : 0;     // some unaligned inputs: the library re-aligns into buffers it must free on the failure path too
            FragSet fs; fs.build(frs, al);
            DecodeOut o = decode(R.desc, fs, R.s.fraglen, 0);
            rc = o.rc; what = "decode";
            bool demand = R.real && !(g.backend == ref::B_ISA_V && !ref::isa_first_k_invertible(g, pm));
            ok = rc == 0;
            if (rc == 0 && R.real && o.out != R.s.data) r.fail("decode returned wrong data");
            if (rc < 0 && g_injected == inj0 && demand) r.fail("decode failed without an injected fault rc=" + std::to_string(rc));
            if (rc < 0 && g_injected == inj0 && !demand) ok = true;
            break;
        }
        case W_RECON_DATA: case W_RECON_PARITY: {
            if (R.desc <= 0 || R.s.rc != 0 || R.s.frags.empty() || g.m < 1) return;
            int lost = w == W_RECON_DATA ? salt % g.k : g.k + salt % g.m;
            std::vector<const std::vector<uint8_t> *> frs; uint64_t pm = 0;
            std::vector<bool> gone = erased_set(g, lost, salt);
            for (int i = 0; i < n; i++) if (!gone[i]) { frs.push_back(&R.s.frags[i]); pm |= 1ull << i; }
            std::vector<int> al(frs.size(), 0);
            for (size_t ai = 0; ai < al.size(); ai++) al[ai] = ((salt + (int)ai) % 3 == 0) ? 1 + (salt + (int)ai) % 15 : 0;     // some unaligned inputs: the library re-aligns into buffers it must free on the failure path too
            FragSet fs; fs.build(frs, al);
            ReconOut o = reconstruct(R.desc, fs, R.s.fraglen, lost);
            rc = o.rc; what = "reconstruct";
            bool demand = R.real && !(g.backend == ref::B_ISA_V && !ref::isa_first_k_invertible(g, pm));
            ok = rc == 0;
            if (rc == 0 && R.real && o.out != R.s.frags[lost]) r.fail("reconstruct returned a different fragment");
            if (rc < 0 && g_injected == inj0 && demand) r.fail("reconstruct failed without an injected fault rc=" + std::to_string(rc));
            if (rc < 0 && g_injected == inj0 && !demand) ok = true;
            break;
        }
        case W_NATURAL_FAIL: {
            // failures the back end reports on its own (no injection): flat-XOR with hd..m fragments lost, which the
            // front end lets through; every destination in the lost set is tried, data and parity. The public call
            // must either rebuild exactly or fail, and nothing may stay allocated (per-case LeakSanitizer check).
            if (R.desc <= 0 || R.s.rc != 0 || R.s.frags.empty() || g.backend != ref::B_XOR) return;
            int nl = std::min(g.m, g.hd + (salt % 2));
            std::vector<int> lost; uint64_t sd = 17 + salt; std::vector<bool> gone(n, false);
            while ((int)lost.size() < nl) { int x = (int)(splitmix64(sd) % n); if ((int)lost.size() == 0 && salt % 3) x = g.k + (int)(splitmix64(sd) % g.m); if (!gone[x]) { gone[x] = true; lost.push_back(x); } }
            std::vector<const std::vector<uint8_t> *> frs;
            for (int i = 0; i < n; i++) if (!gone[i]) frs.push_back(&R.s.frags[i]);
            for (int d : lost) {
                FragSet fs; fs.build(frs, {});
                ReconOut o = reconstruct(R.desc, fs, R.s.fraglen, d);
                if (o.rc == 0 && o.out != R.s.frags[d]) r.fail("reconstruct beyond tolerance succeeded with wrong bytes");
                if (o.rc > 0) r.fail("positive rc");
            }
            { FragSet fs; fs.build(frs, {}); DecodeOut o = decode(R.desc, fs, R.s.fraglen, 0); if (o.rc == 0 && o.out != R.s.data) r.fail("decode beyond tolerance succeeded with wrong bytes"); }
            // the planner failing on its own: the lost set split into a rebuild list and an exclude list in every way
            for (size_t cut = 1; cut <= lost.size(); cut++) {
                std::vector<int> Rl(lost.begin(), lost.begin() + cut), Xl(lost.begin() + cut, lost.end());
                for (int extra = 0; extra < 2; extra++) {
                    if (extra) for (int i = 0; i < n && (int)Xl.size() < g.hd + 1; i++) if (!gone[i]) Xl.push_back(i);      // longer exclude list
                    int *rl = (int *)malloc(sizeof(int) * (Rl.size() + 1)), *xl = (int *)malloc(sizeof(int) * (Xl.size() + 1)), *nl = (int *)malloc(sizeof(int) * n);
                    for (size_t i = 0; i < Rl.size(); i++) rl[i] = Rl[i]; rl[Rl.size()] = -1;
                    for (size_t i = 0; i < Xl.size(); i++) xl[i] = Xl[i]; xl[Xl.size()] = -1;
                    for (int i = 0; i < n; i++) nl[i] = -1;
                    int rc = liberasurecode_fragments_needed(R.desc, rl, xl, nl);
                    if (rc > 0) r.fail("fragments_needed returned a positive code");
                    free(rl); free(xl); free(nl);
                }
            }
            return;
        }
        case W_NEEDED: {
            if (R.desc <= 0) return;
            // every other step names the fragment to rebuild in the exclude list as well (as the repository's own test does)
            int Rl[2] = {salt % n, -1}, X[3] = {-1, -1, -1};
            if (salt & 1) { X[0] = Rl[0]; if (ref::tolerance(g) >= 2 && (salt & 2)) X[1] = (Rl[0] + 1) % n; }
            std::vector<int> N(n + 1, -1);
            rc = liberasurecode_fragments_needed(R.desc, Rl, X, N.data()); what = "fragments_needed"; ok = rc == 0;
            // (lists that overlap are outside what the planner promises to answer - flat XOR counts entries, not distinct
            // indexes: such a query may fail on its own, which is one more naturally failing call for this check)
            if (rc < 0 && g_injected == inj0 && R.real && X[0] < 0) r.fail("fragments_needed failed without an injected fault");
            if (rc < 0 && g_injected == inj0 && X[0] >= 0) ok = true;
            break;
        }
        }
        bool fired = g_injected > inj0;
        if (fired) {
            R.failed_public++;
            if (rc >= 0) r.fail(std::string("back-end ") + what + " operation reported failure but the public call returned " + std::to_string(rc));
            // retry: the fault was for that call number only
            continue;
        }
        if (attempt == 1 && !ok) r.fail(std::string("the call after a failed ") + what + " did not succeed (rc=" + std::to_string(rc) + ")");
        return;
    }
}

static Result run_c17(const Case &c) {
    Result r;
    Config g = cfg_from(c);
    if (ref::is_isa(g.backend) && !isa_available()) { r.skipped = true; return r; }
    std::vector<int> fl = c.ints("faults");
    g_faults.clear();
    for (size_t i = 0; i + 2 < fl.size() + 0; i += 3) g_faults.push_back({fl[i], fl[i + 1], fl[i + 2]});
    std::vector<int> script = c.ints("script");
    if (script.empty()) script = SCRIPT;
    Run R; R.g = g; R.real = g.backend != ref::B_NULL;
    int injected_total = 0;
    {
        Patch patch(g.backend);
        int salt = (int)c.get("salt");
        for (size_t i = 0; i < script.size() && R.r.ok; i++) do_step(R, script[i] % W_N, salt + (int)i);
        // final: every live instance still round-trips, then destroy (no further faults)
        g_faults.clear();
        for (int *dd : {&R.desc, &R.desc2}) if (*dd > 0) {
            if (R.r.ok) {
                std::vector<uint8_t> d(37, 0x3c);
                Stripe st = encode(*dd, g, d);
                if (st.rc != 0) R.r.fail("final encode failed");
            }
            if (liberasurecode_instance_destroy(*dd) != 0) R.r.fail("final destroy failed");
            *dd = -1;
        }
        R.s = Stripe();
        // counts for the enumerator
        for (int o = 0; o < OPI_N; o++) stats().extra[std::string("calls_") + OPIN[o]] = std::max<int64_t>(stats().extra[std::string("calls_") + OPIN[o]], g_calls[o]);
        r = R.r;
        injected_total = g_injected;
        if (!fl.empty() && g_injected == 0) r.cls("fault_not_reached");
        if (c.get("count_only")) { for (int o = 0; o < OPI_N; o++) r.classes.push_back(std::string("n_") + OPIN[o] + "=" + std::to_string(g_calls[o])); }
    }
    // registry is empty again: a fresh create works and gets a usable instance
    {
        int d = create(g);
        if (d <= 0) r.fail("create after the faulted workload failed rc=" + std::to_string(d));
        else liberasurecode_instance_destroy(d);
    }
    // the plugin reference taken by a failed create must have been given back
    if (const char *so = soname_for(g.backend)) {
        void *h = dlopen(so, RTLD_LAZY | RTLD_NOLOAD);
        if (h) {
            dlclose(h);
            // drop the leaked references so that the next case in this process starts clean
            for (int i = 0; i < 64; i++) { void *h2 = dlopen(so, RTLD_LAZY | RTLD_NOLOAD); if (!h2) break; dlclose(h2); dlclose(h2); }
            r.fail(std::string("plugin ") + so + " is still loaded after every instance was destroyed: a dlopen reference leaked (failed init path)"); }
    }
    if (__lsan_do_recoverable_leak_check() != 0 && (r.fatal = true)) r.fail("LeakSanitizer: memory still allocated after the faulted workload");
    r.cls(std::string("be_") + be_name(g.backend));
    for (size_t i = 0; i + 2 < fl.size() + 0; i += 3) r.cls(std::string("fault_") + OPIN[fl[i] % OPI_N]);
    r.nontrivial = injected_total > 0;
    g_faults.clear();
    return r;
}

static std::vector<Config> fault_configs() {
    std::vector<Config> v;
    { Config g; g.backend = ref::B_RS; g.k = 4; g.m = 3; g.hd = 3; g.ct = CT_CRC32; v.push_back(g); }
    { Config g; g.backend = ref::B_XOR; g.k = 6; g.m = 5; g.hd = 3; g.ct = CT_NONE; v.push_back(g); }
    { Config g; g.backend = ref::B_NULL; g.k = 3; g.m = 2; g.hd = 2; g.ct = CT_NONE; v.push_back(g); }
    { Config g; g.backend = ref::B_RS; g.k = 2; g.m = 30; g.hd = 30; g.ct = CT_NONE; v.push_back(g); }         // wide parity: up to 30 fragments missing at once
    { Config g; g.backend = ref::B_RS; g.k = 9; g.m = 23; g.hd = 23; g.ct = CT_CRC32; v.push_back(g); }
    if (isa_available()) {
        { Config g; g.backend = ref::B_ISA_C; g.k = 5; g.m = 3; g.hd = 3; g.ct = CT_CRC32; v.push_back(g); }
        { Config g; g.backend = ref::B_ISA_V; g.k = 3; g.m = 2; g.hd = 2; g.ct = CT_NONE; v.push_back(g); }
    }
    return v;
}
// every single fault position x 3 modes x back ends, for the scripted workload
static void sweep_single() {
    int shard = (int)opts().shard, ns = (int)opts().nshards, counter = 0;
    for (auto &g : fault_configs()) {
        // dry run to count the calls of each operation
        Case dry; cfg_to(dry, g); dry.setl("faults", {}); dry.set("salt", 1);
        g_faults.clear();
        int counts[OPI_N];
        { Result rr = run_c17(dry); (void)rr; }
        {   // recount without book-keeping
            Patch p(g.backend); Run R; R.g = g; R.real = g.backend != ref::B_NULL;
            for (size_t i = 0; i < SCRIPT.size(); i++) do_step(R, SCRIPT[i], 1 + (int)i);
            for (int *dd : {&R.desc, &R.desc2}) if (*dd > 0) liberasurecode_instance_destroy(*dd);
            memcpy(counts, g_calls, sizeof counts);
        }
        for (int op = 0; op < OPI_N; op++) for (int n = 0; n < counts[op]; n++) for (int mode = 0; mode < 3 + (op == OPI_INIT ? shim_count(g.backend) : 0); mode++) {
            if ((counter++ % ns) != shard) continue;
            Case c; cfg_to(c, g); c.setl("faults", {op, n, mode}); c.set("salt", 1);
            sweep_case(c, run_c17);
        }
        stats().extra[std::string("positions_") + be_name(g.backend)] = counts[0] + counts[1] + counts[2] + counts[3] + counts[4];
    }
    stats().exhaustive = true;
}
static Case gen_c17() {
    Case c;
    auto cfgs = fault_configs();
    Config g = cfgs[pick(0, (int64_t)cfgs.size() - 1)];
    if (coin()) { Config t = gen_config(g.backend == ref::B_RS ? G_RS : g.backend == ref::B_XOR ? G_XOR : g.backend == ref::B_NULL ? G_NULL : g.backend == ref::B_ISA_C ? G_ISAC : G_ISAV); t.w = 0; g = t; }
    cfg_to(c, g);
    int len = (int)pick(3, 30);
    std::vector<int> script = {W_CREATE};
    for (int i = 0; i < len; i++) script.push_back(weighted({1, 5, 3, 3, 3, 3, 2, 1, 1, 3}));
    c.setv("script", script);
    int nf = weighted({0, 5, 3, 2, 1});
    std::vector<int> faults;
    for (int i = 0; i < nf; i++) { int op = weighted({2, 3, 3, 3, 2}); faults.push_back(op); faults.push_back((int)pick(0, 6)); faults.push_back(op == OPI_INIT && coin() ? 3 + (int)pick(0, 7) : (int)pick(0, 2)); }
    c.setv("faults", faults);
    c.set("salt", pick(0, 1000));
    return c;
}

int main(int argc, char **argv) {
    Harness h;
    h.prop = "C17";
    h.mode("c17_single", sweep_single, run_c17);
    h.mode("c17", [] { rc_property("C17 fault sets", gen_c17, run_c17); }, run_c17);
    return harness_main(argc, argv, h);
}
