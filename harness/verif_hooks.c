/* Verif-owned definitions for the guarded hooks (compiled only into check builds of
 * liberasurecode.so; the autotools build never sees this file). */
void (*liberasurecode_verif_yield)(int point) = 0;
