// Thin, checked wrappers around the library under test + shared generators for configurations.
#pragma once
#include "api.hpp"
#include "fw.hpp"
#include "../ref/ref.hpp"
#include <memory>
#include <sys/mman.h>
#include <cerrno>
#include <unistd.h>

namespace lib {
using ref::Config;
using fw::Case;

// value of errno when a wrapped library call is entered (0 by default): the answer of a call is a function of its
// arguments, not of what an earlier, unrelated call left in errno
inline int &errno_in() { static int v = 0; return v; }
// the null back end's documented sample private argument (ec_args.priv_args1.null_args.arg1): a harness may set it for
// the creates it makes; no back end gives it a meaning, so nothing observable may depend on it
inline uint64_t &null_arg1() { static uint64_t v = 0; return v; }
inline int create(const Config &c) {
    struct ec_args a;
    memset(&a, 0, sizeof a);
    a.k = c.k; a.m = c.m; a.w = c.w; a.hd = c.hd; a.ct = c.ct;
    if (c.backend == ref::B_NULL) a.priv_args1.null_args.arg1 = null_arg1();
    return liberasurecode_instance_create((unsigned)c.backend, &a);
}

// the back ends' exported operation tables (layout guarded by abi_probe.c); used to ask a back end which
// fragment versions it accepts, and by the fault-injection harness
extern "C" {
struct lec_op_stubs {
    void *(*init)(void *, void *); int (*exit)(void *); int (*encode)(void *, char **, char **, int);
    int (*decode)(void *, char **, char **, int *, int); int (*fragments_needed)(void *, int *, int *, int *);
    int (*reconstruct)(void *, char **, char **, int *, int, int); int (*element_size)(void *);
    bool (*is_compatible_with)(uint32_t); size_t (*get_backend_metadata_size)(void *, int); size_t (*get_encode_offset)(void *, int);
};
extern struct lec_op_stubs liberasurecode_rs_vand_op_stubs, flat_xor_hd_op_stubs, null_op_stubs, isa_l_rs_vand_op_stubs, isa_l_rs_cauchy_op_stubs;
}
inline bool backend_accepts(int backend, uint32_t version) {
    switch (backend) {
    case ref::B_RS: return liberasurecode_rs_vand_op_stubs.is_compatible_with(version);
    case ref::B_XOR: return flat_xor_hd_op_stubs.is_compatible_with(version);
    case ref::B_NULL: return null_op_stubs.is_compatible_with(version);
    case ref::B_ISA_V: return isa_l_rs_vand_op_stubs.is_compatible_with(version);
    case ref::B_ISA_C: return isa_l_rs_cauchy_op_stubs.is_compatible_with(version);
    }
    return false;
}
struct InstallAccepts { InstallAccepts() { ref::accepts_hook() = backend_accepts; } };
static InstallAccepts g_install_accepts;

inline bool isa_available() {
    static int v = -1;
    if (v < 0) v = liberasurecode_backend_available(BE_ISA_VAND) ? 1 : 0;
    return v == 1;
}

// RAII instance
struct Instance {
    int desc = -1;
    Config cfg;
    explicit Instance(const Config &c) : cfg(c) { desc = create(c); }
    Instance(const Instance &) = delete;
    ~Instance() { if (desc > 0) liberasurecode_instance_destroy(desc); }
    bool ok() const { return desc > 0; }
};

// long-lived instances shared by many cases of one process (state carried between calls on one descriptor);
// a failure on a pooled instance is saved with the window of preceding cases (multi-case replay file)
struct Pool {
    std::vector<std::unique_ptr<Instance>> v;
    Instance *get(const Config &c) {
        for (size_t i = 0; i < v.size(); i++) { const Config &x = v[i]->cfg; if (x.backend == c.backend && x.k == c.k && x.m == c.m && x.hd == c.hd && x.w == c.w && x.ct == c.ct) { std::rotate(v.begin() + i, v.begin() + i + 1, v.end()); return v.back().get(); } }
        if (v.size() >= 6) v.erase(v.begin());
        v.emplace_back(new Instance(c));
        return v.back().get();
    }
};
inline Pool &pool() { static Pool *p = new Pool; return *p; }

struct Stripe {
    int rc = -1;
    uint64_t fraglen = 0;
    std::vector<uint8_t> data;
    std::vector<std::vector<uint8_t>> frags;   // k+m fragments, index order
    int cleanup_rc = 0;
};

// exact-size heap copy of the input so ASan red zones sit directly behind it
struct ExactBuf {
    char *p = nullptr; size_t n = 0;
    explicit ExactBuf(const std::vector<uint8_t> &v) : n(v.size()) { p = (char *)malloc(n ? n : 1); if (n) memcpy(p, v.data(), n); }
    ExactBuf(const ExactBuf &) = delete;
    ~ExactBuf() { free(p); }
};

inline Stripe encode(int desc, const Config &c, const std::vector<uint8_t> &data) {
    Stripe s;
    s.data = data;
    ExactBuf in(data);
    char **ed = nullptr, **ep = nullptr;
    uint64_t fl = 0xDEADBEEFCAFEull;          // poisoned: a success that forgets to set it is visible
    s.rc = liberasurecode_encode(desc, in.p, data.size(), &ed, &ep, &fl);
    if (s.rc != 0) return s;
    s.fraglen = fl;
    for (int i = 0; i < c.k; i++) s.frags.emplace_back((uint8_t *)ed[i], (uint8_t *)ed[i] + fl);
    for (int i = 0; i < c.m; i++) s.frags.emplace_back((uint8_t *)ep[i], (uint8_t *)ep[i] + fl);
    s.cleanup_rc = liberasurecode_encode_cleanup(desc, ed, ep);
    return s;
}

// A presented set of fragments: exact-size heap blocks at chosen offsets from a 16-byte boundary
struct FragSet {
    std::vector<char *> bases;
    char **ptrs = nullptr;
    int count = 0;
    std::vector<std::vector<uint8_t>> copies;    // private copies for "inputs unchanged" checks
    std::vector<size_t> lens;
    FragSet() = default;
    FragSet(const FragSet &) = delete;
    void build(const std::vector<const std::vector<uint8_t> *> &frs, const std::vector<int> &align) {
        count = (int)frs.size();
        ptrs = (char **)malloc(sizeof(char *) * (count ? count : 1));
        for (int i = 0; i < count; i++) {
            int off = i < (int)align.size() ? (align[i] & 15) : 0;
            size_t len = frs[i]->size();
            char *b = nullptr;
            if (posix_memalign((void **)&b, 16, off + len + (off + len == 0 ? 1 : 0)) != 0) abort();
            memcpy(b + off, frs[i]->data(), len);
            bases.push_back(b);
            ptrs[i] = b + off;
            copies.push_back(*frs[i]);
            lens.push_back(len);
        }
    }
    bool unchanged() const {
        for (int i = 0; i < count; i++) if (memcmp(ptrs[i], copies[i].data(), lens[i]) != 0) return false;
        return true;
    }
    ~FragSet() { for (char *b : bases) free(b); free(ptrs); }
};

// ------------------------------------------------------------------ guard-page placement (C15, C02)
// inputs on PROT_READ pages flush against PROT_NONE pages: any write to an input, any read outside it faults
struct Guarded {
    uint8_t *map = nullptr; size_t maplen = 0; uint8_t *p = nullptr; size_t n = 0;
    // end_flush: buffer ends at the PROT_NONE page (over-read faults); else starts right after one (under-read faults)
    void place(const uint8_t *src, size_t len, bool end_flush, int misalign) {
        long pg = sysconf(_SC_PAGESIZE);
        size_t body = (len + (size_t)misalign + pg - 1) / pg * pg + pg;
        maplen = body + 2 * pg;
        map = (uint8_t *)mmap(nullptr, maplen, PROT_READ | PROT_WRITE, MAP_PRIVATE | MAP_ANONYMOUS, -1, 0);
        if (map == MAP_FAILED) abort();
        n = len;
        if (end_flush) p = map + pg + body - len;          // last byte just before the trailing guard page
        else p = map + pg;                                  // first byte just after the leading guard page
        if (end_flush && misalign == 0) p -= ((uintptr_t)p & 15);   // keep 16-alignment when asked: then ends <16 bytes before the guard
        if (len) memcpy(p, src, len);
        mprotect(map, pg, PROT_NONE);
        mprotect(map + pg + body, pg, PROT_NONE);
        mprotect(map + pg, body, PROT_READ);
    }
    ~Guarded() { if (map) munmap(map, maplen); }
};

// a presented fragment set on guarded read-only pages (same interface subset as FragSet)
struct GuardedSet {
    std::vector<std::unique_ptr<Guarded>> gs; std::unique_ptr<Guarded> arr; char **ptrs = nullptr; int count = 0;
    void build(const std::vector<const std::vector<uint8_t> *> &frs, const std::vector<int> &align, int flushsel) {
        std::vector<char *> p;
        for (size_t i = 0; i < frs.size(); i++) {
            gs.emplace_back(new Guarded);
            int mis = i < align.size() ? (align[i] & 15) : 0;
            gs.back()->place(frs[i]->data(), frs[i]->size(), ((flushsel >> (i % 16)) & 1) == 0, mis);
            p.push_back((char *)gs.back()->p);
        }
        count = (int)p.size();
        arr.reset(new Guarded);
        char *dummy = nullptr;
        arr->place(count ? (const uint8_t *)p.data() : (const uint8_t *)&dummy, (count ? count : 1) * sizeof(char *), true, 0);
        ptrs = (char **)arr->p;
    }
};

// an input buffer of exactly the given size: on the heap (ASan red zones), or - ro - on read-only pages ending flush
// at a guard page, so that a write INTO the input is a fault as well as a read beyond it
struct InBuf {
    char *p = nullptr; size_t n = 0; std::unique_ptr<Guarded> g;
    InBuf(const std::vector<uint8_t> &v, bool ro) : n(v.size()) {
        if (ro) { g.reset(new Guarded); g->place(v.data(), v.size(), true, (int)((16 - v.size() % 16) % 16)); p = (char *)g->p; }
        else { p = (char *)malloc(n ? n : 1); if (n) memcpy(p, v.data(), n); }
    }
    InBuf(const InBuf &) = delete;
    ~InBuf() { if (!g) free(p); }
};

struct DecodeOut { int rc = 0; bool out_null = true; std::vector<uint8_t> out; uint64_t out_len = 0; int cleanup_rc = 0; };
inline DecodeOut decode(int desc, FragSet &fs, uint64_t fraglen, int force) {
    errno = errno_in();
    DecodeOut d;
    char *out = nullptr;
    uint64_t len = 0xDEADBEEFCAFEull;         // poisoned
    d.rc = liberasurecode_decode(desc, fs.ptrs, fs.count, fraglen, force, &out, &len);
    d.out_null = out == nullptr;
    if (d.rc == 0) {
        d.out_len = len;
        if (len > (1ull << 32)) { d.out_len = len; d.out.clear(); d.out.push_back(0xEE); }      // length never set: reported as a mismatch by the callers
        else if (out && len) d.out.assign((uint8_t *)out, (uint8_t *)out + len);
        d.cleanup_rc = liberasurecode_decode_cleanup(desc, out);
    }
    return d;
}

struct ReconOut { int rc = 0; std::vector<uint8_t> out; bool untouched = true; };
inline ReconOut reconstruct(int desc, FragSet &fs, uint64_t fraglen, int dest, const std::vector<uint8_t> *prefill = nullptr) {
    ReconOut r;
    size_t n = (size_t)fraglen;
    char *out = (char *)malloc(n ? n : 1);
    memset(out, 0xA5, n ? n : 1);
    // what the caller's buffer held before is the caller's business: optionally it holds a stale fragment
    if (prefill && !prefill->empty()) memcpy(out, prefill->data(), std::min(n, prefill->size()));
    errno = errno_in();
    r.rc = liberasurecode_reconstruct_fragment(desc, fs.ptrs, fs.count, fraglen, dest, out);
    r.out.assign((uint8_t *)out, (uint8_t *)out + n);
    for (size_t i = 0; i < n; i++) if ((uint8_t)out[i] != 0xA5) { r.untouched = false; break; }
    free(out);
    return r;
}

// ------------------------------------------------------------------ case <-> config
inline Config cfg_from(const Case &c, const std::string &pfx = "") {
    Config g;
    g.backend = (int)c.get(pfx + "be"); g.k = (int)c.get(pfx + "k"); g.m = (int)c.get(pfx + "m");
    g.hd = (int)c.get(pfx + "hd"); g.w = (int)c.get(pfx + "w"); g.ct = (int)c.get(pfx + "ct");
    return g;
}
inline void cfg_to(Case &c, const Config &g, const std::string &pfx = "") {
    c.set(pfx + "be", g.backend); c.set(pfx + "k", g.k); c.set(pfx + "m", g.m);
    c.set(pfx + "hd", g.hd); c.set(pfx + "w", g.w); c.set(pfx + "ct", g.ct);
}
inline const char *be_name(int b) {
    switch (b) { case ref::B_RS: return "rs"; case ref::B_XOR: return "xor"; case ref::B_ISA_V: return "isa_v"; case ref::B_ISA_C: return "isa_c"; case ref::B_NULL: return "null"; }
    return "other";
}

// ------------------------------------------------------------------ shared generators
// backends: bitmask of allowed {rs=1, xor=2, isa_v=4, isa_c=8, null=16}
enum { G_RS = 1, G_XOR = 2, G_ISAV = 4, G_ISAC = 8, G_NULL = 16, G_REAL = 15, G_ALL = 31 };

// content class "payload checksum zero": patch the last four bytes of data fragment `frag`'s slice of the original
// data so that the standard CRC-32 of that fragment's payload is 0 - a legitimate stored checksum value that a
// writer can produce (2^-32 per fragment for random content, so it is constructed)
static bool make_crc0(const ref::Config &g, std::vector<uint8_t> &data, int frag) {
    if (data.empty() || frag < 0 || frag >= g.k) return false;
    auto pl = ref::encode_payloads(g, data.data(), data.size());
    if (pl.empty()) return false;
    size_t bs = pl[0].size();
    if (bs < 4 || (size_t)(frag + 1) * bs > data.size()) return false;
    uint8_t *p = data.data() + (size_t)frag * bs;
    static uint32_t tab[256]; static uint8_t rev[256]; static bool init = false;
    if (!init) { for (uint32_t i = 0; i < 256; i++) { uint32_t c = i; for (int b = 0; b < 8; b++) c = (c & 1) ? 0xedb88320u ^ (c >> 1) : c >> 1; tab[i] = c; rev[c >> 24] = (uint8_t)i; } init = true; }
    uint32_t r0 = ref::crc32_std(p, bs - 4) ^ 0xffffffffu;
    uint32_t v = 0xffffffffu;       // the register value that finalises to checksum 0
    for (int i = 0; i < 4; i++) { uint8_t t = rev[v >> 24]; v = ((v ^ tab[t]) << 8) | t; }
    v ^= r0;
    uint8_t save[4]; memcpy(save, p + bs - 4, 4);
    p[bs - 4] = (uint8_t)v; p[bs - 3] = (uint8_t)(v >> 8); p[bs - 2] = (uint8_t)(v >> 16); p[bs - 1] = (uint8_t)(v >> 24);
    auto pl2 = ref::encode_payloads(g, data.data(), data.size());
    if (ref::crc32_std(pl2[frag].data(), pl2[frag].size()) == 0) return true;
    memcpy(p + bs - 4, save, 4);    // the fragment's payload is not this slice (never for the built-in back ends)
    return false;
}

inline Config gen_config(int allowed = G_REAL, int ct_force = -1) {
    using namespace fw;
    if (!isa_available()) allowed &= ~(G_ISAV | G_ISAC);
    std::vector<int> bes; std::vector<int> wts;
    if (allowed & G_RS) { bes.push_back(ref::B_RS); wts.push_back(4); }
    if (allowed & G_XOR) { bes.push_back(ref::B_XOR); wts.push_back(4); }
    if (allowed & G_ISAV) { bes.push_back(ref::B_ISA_V); wts.push_back(2); }
    if (allowed & G_ISAC) { bes.push_back(ref::B_ISA_C); wts.push_back(2); }
    if (allowed & G_NULL) { bes.push_back(ref::B_NULL); wts.push_back(1); }
    int tot = 0; for (int x : wts) tot += x;
    int r = (int)pick(0, tot - 1), bi = 0;
    for (size_t i = 0; i < wts.size(); i++) { if (r < wts[i]) { bi = (int)i; break; } r -= wts[i]; }
    Config g;
    g.backend = bes[bi];
    if (g.backend == ref::B_XOR) {
        const ref::XorShape &s = ref::XOR_SHAPES[pick(0, ref::N_XOR_SHAPES - 1)];
        g.k = s.k; g.m = s.m; g.hd = s.hd;
        static const int ws[] = {0, 8, 16, 32};
        g.w = ws[pick(0, 3)];
    } else {
        int kind = weighted({1, 1, 1});
        if (kind == 0) { g.k = (int)pick(1, 31); g.m = (int)pick(1, 32 - g.k); }
        else if (kind == 1) {
            switch (pick(0, 3)) {
            case 0: g.k = 1; g.m = (int)pick(1, 31); break;
            case 1: g.m = 1; g.k = (int)pick(1, 31); break;
            case 2: g.k = (int)pick(1, 31); g.m = 32 - g.k; break;
            default: g.k = 31; g.m = 1; break;
            }
        } else { g.k = (int)pick(1, 7); g.m = (int)pick(1, 8 - g.k); }
        g.hd = g.m;
        if (coin(1, 5)) g.hd = (int)pick(0, 40);      // hd is documented as "= m for Reed-Solomon" and ignored by these back ends
        if (ref::is_isa(g.backend)) {       // the adapters accept 8 <= w <= 62 (and 0 = default 8; 63 overflows their own k+m <= 2^w test and is refused); the word size only sets the alignment unit w/8
            switch (weighted({3, 3, 2, 2})) { case 0: g.w = 0; break; case 1: g.w = 8; break; case 2: g.w = coin() ? 16 : 32; break; default: g.w = (int)pick(9, 62); }
        }
        else if (g.backend == ref::B_NULL) { static const int ws[] = {0, 8, 16, 32}; g.w = ws[pick(0, 3)]; }
        else { static const int ws[] = {0, 8, 16, 32}; g.w = ws[pick(0, 3)]; }
    }
    g.ct = ct_force >= 0 ? ct_force : (coin() ? CT_NONE : CT_CRC32);
    if (ct_force < 0 && coin(1, 12)) g.ct = CT_MD5;      // accepted checksum type without an implementation: behaves like NONE
    return g;
}
inline size_t gen_length(const Config &g, size_t cap) {
    using namespace fw;
    size_t unit = (size_t)g.k * ref::word_bytes(g);
    size_t len;
    switch (weighted({2, 5, 4, 1, 2})) {
    case 0: len = (size_t)pick(0, 3); break;
    case 1: { size_t q = (size_t)pick(0, 40); int64_t d = pick(-1, 1); int64_t v = (int64_t)(q * unit) + d; len = v < 0 ? 0 : (size_t)v; break; }
    case 2: len = (size_t)pick(0, 4095); break;
    case 3: len = (size_t)pick(0, (int64_t)cap); break;
    default: {   // powers of two: of the whole object or of the per-fragment payload, +-1
        int p = (int)pick(0, 20); int64_t d = pick(-1, 1);
        int64_t v = coin() ? ((int64_t)1 << p) + d : (int64_t)g.k * ((int64_t)1 << std::min(p, 16)) + d;
        len = v < 0 ? 0 : (size_t)v; break; }
    }
    return std::min(len, cap);
}

// another configuration of the same back end ("sibling"): boundary shapes first - one data fragment, one parity
// fragment, no parity at all (rs_vand), the largest stripe, the same shape again - then anything
inline Config sibling_shape(const Config &g, int sel) {
    Config s = g;
    if (g.backend == ref::B_XOR) {
        int idx = (sel / 8) % ref::N_XOR_SHAPES;
        const ref::XorShape *cur = ref::xor_shape(g.k, g.m, g.hd);
        if (sel % 8 != 4 && cur && cur == &ref::XOR_SHAPES[idx]) idx = (idx + 1) % ref::N_XOR_SHAPES;
        if (sel % 8 == 4 && cur) return s;
        s.k = ref::XOR_SHAPES[idx].k; s.m = ref::XOR_SHAPES[idx].m; s.hd = ref::XOR_SHAPES[idx].hd;
        return s;
    }
    switch (sel % 8) {
    case 0: s.k = 1; s.m = 2; break;
    case 1: s.k = 1 + (sel / 8) % 10; s.m = 1; break;
    case 2: if (g.backend == ref::B_RS) { s.k = 1 + (sel / 8) % 6; s.m = 0; } else { s.k = 2; s.m = 1; } break;
    case 3: s.k = 1; s.m = 1; break;
    case 4: break;
    case 5: s.k = 31; s.m = 1; break;
    case 6: s.k = 2 + (sel / 8) % 3; s.m = 32 - s.k; break;
    default: s.k = 1 + (sel / 8) % 15; s.m = 1 + (sel / 128) % 8; break;
    }
    s.hd = s.m;
    if (ref::is_isa(g.backend) && s.k + s.m > 32) { s.k = 4; s.m = 2; s.hd = 2; }
    return s;
}
// create the sibling, optionally use it once (encode of a small buffer)
inline std::unique_ptr<Instance> make_sibling(const Config &g, int sel, fw::Result &r) {
    Config s = sibling_shape(g, sel);
    std::unique_ptr<Instance> in(new Instance(s));
    if (!in->ok()) { r.fail("create of a sibling configuration (k=" + std::to_string(s.k) + " m=" + std::to_string(s.m) + " hd=" + std::to_string(s.hd) + ") failed rc=" + std::to_string(in->desc)); return in; }
    if ((sel >> 3) & 1) {
        std::vector<uint8_t> d((size_t)s.k * ref::word_bytes(s) * 2 + 1, 0x6b);
        Stripe st = encode(in->desc, s, d);
        if (st.rc != 0) r.fail("encode on a sibling instance failed");
    }
    r.cls("sibling_created");
    return in;
}

// Calls made on a descriptor BEFORE the call a check is about ("history" dimension of single-call oracles): each
// entry is (kind, arg). The stripes handed in come from the pure reference serializer, so nothing here depends on
// the library's own encode. Results of these calls are only checked where the answer is forced (rc 0 => exact);
// the point is that whatever they do must not change what the descriptor does afterwards.
//   1 decode own-configuration stripe (arg selects the erasure set: all data that tolerance allows / some / parity only)
//   2 reconstruct own-configuration stripe      3 reconstruct a stripe written under ANOTHER checksum type
//   4 the same with the destination supplied among the fragments      5 the same with too few fragments (fails)
//   6 decode of a foreign-checksum-type stripe with too few fragments (fails)      7 metadata/validity queries
//   8 another instance of the same back end (sibling_shape) is created, maybe used, and destroyed again
//   9 the same, but it stays alive until the case ends (returned through `keep`)
inline void prehistory(int desc, const Config &g, const std::vector<int> &hist, fw::Result &r, std::vector<std::unique_ptr<Instance>> *keep = nullptr) {
    using namespace fw;
    int n = g.n(), t = ref::tolerance(g);
    for (size_t h = 0; h + 1 < hist.size(); h += 2) {
        int kind = hist[h], arg = hist[h + 1];
        if (kind == 8 || kind == 9) {
            std::unique_ptr<Instance> sib = make_sibling(g, arg, r);
            r.cls("prehistory_kind_" + std::to_string(kind));
            if (kind == 9 && keep && sib->ok()) keep->push_back(std::move(sib));
            continue;
        }
        if (g.backend == ref::B_NULL) continue;
        size_t len = (size_t)g.k * ref::word_bytes(g) * (1 + arg % 3) + (size_t)(arg % 5);
        std::vector<uint8_t> data(len);
        uint64_t sd = 4242 + (uint64_t)arg;
        for (auto &b : data) b = (uint8_t)splitmix64(sd);
        Config gw = g;
        if (kind >= 3 && kind <= 6) gw.ct = g.ct == CT_CRC32 ? CT_NONE : CT_CRC32;
        auto st = ref::serialize_stripe(gw, data.data(), data.size(), liberasurecode_get_version(), false);
        auto own = ref::serialize_stripe(g, data.data(), data.size(), liberasurecode_get_version(), false);
        uint64_t fraglen = st[0].size();
        std::vector<int> lost;
        if (kind == 1 || kind == 6) {
            switch ((arg / 4) % 4) {
            case 0: for (int i = 0; i < std::min(t, g.k); i++) lost.push_back(i); if (t > g.k && (arg & 64)) lost.push_back(g.k); break;   // every data fragment if tolerance allows
            case 1: for (int i = 0; i < t; i++) lost.push_back((arg / 16 + i * 3) % n); break;
            case 2: for (int i = 0; i < std::min(t, g.m); i++) lost.push_back(g.k + i); break;
            default: lost.push_back((arg / 16) % g.k);
            }
            std::sort(lost.begin(), lost.end()); lost.erase(std::unique(lost.begin(), lost.end()), lost.end());
        }
        auto survivors = [&](const std::vector<int> &gone, int limit) {
            std::vector<const std::vector<uint8_t> *> frs;
            for (int i = 0; i < n && (int)frs.size() < limit; i++) if (std::find(gone.begin(), gone.end(), i) == gone.end()) frs.push_back(&st[i]);
            return frs;
        };
        r.cls("prehistory_kind_" + std::to_string(kind));
        // some survivors sit at addresses that are not 16-byte aligned (the library re-homes those)
        auto offsets = [&](size_t count) { std::vector<int> al(count, 0); if (arg & 2048) for (size_t i = 0; i < count; i++) al[i] = ((arg >> (i % 8)) & 1) ? (int)(1 + (arg + i * 7) % 15) : 0; return al; };
        if (kind == 1) {
            auto frs = survivors(lost, n);
            FragSet fs; fs.build(frs, offsets(frs.size()));
            DecodeOut d = decode(desc, fs, fraglen, 0);
            if (d.rc == 0 && d.out != data) r.fail("history decode returned rc 0 with wrong data");
            if (!fs.unchanged()) r.fail("history decode modified an input");
            bool all_data = true; for (int i = 0; i < g.k; i++) if (std::find(lost.begin(), lost.end(), i) == lost.end()) all_data = false;
            if (all_data && d.rc == 0) r.cls("prehistory_decode_from_parity_only");
        } else if (kind == 2 || kind == 3 || kind == 4) {
            int dest = (arg / 4) % n;
            std::vector<int> gone; if (kind != 4) gone.push_back(dest);
            auto frs = survivors(gone, n);
            FragSet fs; fs.build(frs, offsets(frs.size()));
            ReconOut o = reconstruct(desc, fs, fraglen, dest);
            if (o.rc == 0 && kind != 4 && o.out != own[dest]) r.fail("history reconstruct returned rc 0 with a fragment that differs from this configuration's own");
            if (!fs.unchanged()) r.fail("history reconstruct modified an input");
        } else if (kind == 5) {
            int dest = (arg / 4) % n;
            auto frs = survivors({dest}, std::max(0, g.k - 1));
            if (frs.empty()) continue;
            FragSet fs; fs.build(frs, {});
            ReconOut o = reconstruct(desc, fs, fraglen, dest);
            if (o.rc == 0 && g.k > 1) r.fail("history reconstruct with fewer than k fragments succeeded");
        } else if (kind == 6) {
            auto frs = survivors(lost, std::max(0, g.k - 1));
            if (frs.empty()) continue;
            FragSet fs; fs.build(frs, {});
            DecodeOut d = decode(desc, fs, fraglen, 0);
            if (d.rc == 0 && g.k > 1) r.fail("history decode with fewer than k fragments succeeded");
        } else if (kind == 7) {
            ExactBuf fb(st[arg % n]);
            fragment_metadata_t md; memset(&md, 0, sizeof md);
            liberasurecode_get_fragment_metadata(fb.p, &md);
            is_invalid_fragment(desc, fb.p);
        }
    }
}
inline std::vector<int> gen_prehistory() {
    using namespace fw;
    std::vector<int> h;
    int nh = weighted({0, 3, 2, 1});
    for (int i = 0; i < nh; i++) { h.push_back(1 + weighted({4, 2, 2, 2, 2, 1, 1, 4, 3})); h.push_back((int)pick(0, 1 << 12)); }
    return h;
}

inline std::string hex(const uint8_t *p, size_t n) {
    static const char *d = "0123456789abcdef"; std::string s;
    for (size_t i = 0; i < n; i++) { s += d[p[i] >> 4]; s += d[p[i] & 15]; }
    return s;
}
inline std::string first_diff(const std::vector<uint8_t> &a, const std::vector<uint8_t> &b) {
    if (a.size() != b.size()) return "length " + std::to_string(a.size()) + " vs " + std::to_string(b.size());
    for (size_t i = 0; i < a.size(); i++) if (a[i] != b[i]) {
        return "first difference at byte " + std::to_string(i) + ": " + std::to_string(a[i]) + " vs " + std::to_string(b[i]);
    }
    return "equal";
}

}  // namespace lib
