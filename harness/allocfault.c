/* Allocation fault shim for h_codec (plain C, built WITHOUT sanitizer instrumentation and linked into the harness
 * executable). The sanitizer runtime exports malloc / calloc / posix_memalign as weak symbols; these strong definitions
 * take precedence for every caller in the process and forward with a real tail call, so that the runtime still sees the
 * original caller (LeakSanitizer exempts the dynamic loader's own allocations by caller address). The harness arms the
 * shim only around one library call:
 *   - aligned allocations (posix_memalign): the one with the chosen ordinal fails - every ordinal is swept;
 *   - plain allocations (malloc, calloc): only "the call gets no memory at all", i.e. the FIRST one fails
 *     (verif_alloc_heap_first). Later plain allocations are deliberately not failed: on the unchanged tree a failing
 *     plain allocation deeper inside decode is dereferenced two statements later - out-of-memory handling is outside
 *     every listed property, so a sweep over those failures would not be a sound oracle for this code base. */
#include <stddef.h>
int verif_alloc_armed = 0, verif_alloc_fail_at = -1, verif_alloc_calls = 0;
int verif_alloc_heap_first = 0, verif_alloc_heap_calls = 0;
extern int __interceptor_posix_memalign(void **, size_t, size_t);
extern void *__interceptor_malloc(size_t);
extern void *__interceptor_calloc(size_t, size_t);
static __attribute__((noinline)) int fault_now(void)
{
    if (!verif_alloc_armed)
        return 0;
    return verif_alloc_calls++ == verif_alloc_fail_at;
}
static __attribute__((noinline)) int heap_fault_now(void)
{
    if (!verif_alloc_armed || !verif_alloc_heap_first)
        return 0;
    return verif_alloc_heap_calls++ == 0;
}
int posix_memalign(void **p, size_t al, size_t sz)
{
    if (fault_now())
        return 12; /* ENOMEM */
    __attribute__((musttail)) return __interceptor_posix_memalign(p, al, sz);
}
void *malloc(size_t n)
{
    if (heap_fault_now())
        return NULL;
    __attribute__((musttail)) return __interceptor_malloc(n);
}
void *calloc(size_t a, size_t b)
{
    if (heap_fault_now())
        return NULL;
    __attribute__((musttail)) return __interceptor_calloc(a, b);
}
