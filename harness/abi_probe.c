/* Compiled against the tree's headers on every run.  The harnesses use verif-owned declarations
 * (harness/api.hpp); this file fails to compile when the public layout they assume changed.
 * The fragment header layout is also C07's compile-time observation. */
#include <stddef.h>
#include "erasurecode.h"
#include "erasurecode_backend.h"
#include "erasurecode_helpers.h"
#include "xor_code.h"

#define SA(c, m) _Static_assert(c, m)

/* --- C07: wire format ------------------------------------------------------------------- */
#ifndef ABI_PROBE_SKIP_C07
SA(sizeof(fragment_header_t) == 80, "fragment header must be 80 bytes");
SA(sizeof(fragment_metadata_t) == 59, "metadata block must be 59 bytes");
SA(offsetof(fragment_header_t, meta) == 0, "meta at 0");
SA(offsetof(fragment_metadata_t, idx) == 0, "idx at 0");
SA(offsetof(fragment_metadata_t, size) == 4, "size at 4");
SA(offsetof(fragment_metadata_t, frag_backend_metadata_size) == 8, "backend metadata size at 8");
SA(offsetof(fragment_metadata_t, orig_data_size) == 12, "orig_data_size at 12");
SA(offsetof(fragment_metadata_t, chksum_type) == 20, "chksum_type at 20");
SA(offsetof(fragment_metadata_t, chksum) == 21, "chksum at 21");
SA(offsetof(fragment_metadata_t, chksum_mismatch) == 53, "mismatch at 53");
SA(offsetof(fragment_metadata_t, backend_id) == 54, "backend id at 54");
SA(offsetof(fragment_metadata_t, backend_version) == 55, "backend version at 55");
SA(offsetof(fragment_header_t, magic) == 59, "magic at 59");
SA(offsetof(fragment_header_t, libec_version) == 63, "libec_version at 63");
SA(offsetof(fragment_header_t, metadata_chksum) == 67, "metadata_chksum at 67");
SA(offsetof(fragment_header_t, aligned_padding) == 71, "padding at 71");
SA(LIBERASURECODE_FRAG_HEADER_MAGIC == 0x0b0c5ecc, "magic value");
SA(sizeof(((fragment_metadata_t *)0)->idx) == 4 && sizeof(((fragment_metadata_t *)0)->orig_data_size) == 8, "field widths");
SA(sizeof(((fragment_metadata_t *)0)->chksum) == 32 && sizeof(((fragment_metadata_t *)0)->chksum_type) == 1, "field widths");
SA(sizeof(((fragment_metadata_t *)0)->backend_id) == 1 && sizeof(((fragment_metadata_t *)0)->backend_version) == 4, "field widths");
#endif

/* --- ABI assumed by harness/api.hpp ------------------------------------------------------ */
#ifndef ABI_PROBE_ONLY_C07
SA(sizeof(struct ec_args) == 64, "ec_args size");
SA(offsetof(struct ec_args, k) == 0 && offsetof(struct ec_args, m) == 4 && offsetof(struct ec_args, w) == 8 &&
   offsetof(struct ec_args, hd) == 12, "ec_args leading ints");
SA(offsetof(struct ec_args, priv_args1) == 16 && offsetof(struct ec_args, priv_args2) == 48 && offsetof(struct ec_args, ct) == 56, "ec_args tail");
SA(EC_BACKEND_NULL == 0 && EC_BACKEND_FLAT_XOR_HD == 3 && EC_BACKEND_ISA_L_RS_VAND == 4 &&
   EC_BACKEND_LIBERASURECODE_RS_VAND == 6 && EC_BACKEND_ISA_L_RS_CAUCHY == 7 && EC_BACKENDS_MAX == 9, "backend ids");
SA(CHKSUM_NONE == 1 && CHKSUM_CRC32 == 2 && CHKSUM_MD5 == 3, "checksum types");
SA(EBACKENDNOTSUPP == 200 && EBACKENDINITERR == 202 && EBACKENDNOTAVAIL == 204 && EBADCHKSUM == 205 &&
   EINVALIDPARAMS == 206 && EBADHEADER == 207 && EINSUFFFRAGS == 208, "error codes");
SA(EC_MAX_FRAGMENTS == 32, "max fragments");
/* members the C17 fault wrappers and C05 table probe touch */
SA(offsetof(xor_code_t, k) == 0 && offsetof(xor_code_t, m) == 4 && offsetof(xor_code_t, hd) == 8 &&
   offsetof(xor_code_t, parity_bms) == 16 && offsetof(xor_code_t, data_bms) == 24, "xor_code_t head");
SA(offsetof(struct ec_backend, common) == 0, "ec_backend.common first");
SA(offsetof(struct ec_backend_common, id) == 0 && offsetof(struct ec_backend_common, name) == 4 &&
   offsetof(struct ec_backend_common, soname) == 72 && offsetof(struct ec_backend_common, ops) == 144, "ec_backend_common layout");
SA(offsetof(struct ec_backend_op_stubs, init) == 0 && offsetof(struct ec_backend_op_stubs, exit) == 8 &&
   offsetof(struct ec_backend_op_stubs, encode) == 16 && offsetof(struct ec_backend_op_stubs, decode) == 24 &&
   offsetof(struct ec_backend_op_stubs, fragments_needed) == 32 && offsetof(struct ec_backend_op_stubs, reconstruct) == 40 &&
   offsetof(struct ec_backend_op_stubs, element_size) == 48 && offsetof(struct ec_backend_op_stubs, is_compatible_with) == 56, "op stubs layout");

/* guarded hook points used by harness/h_sched.cpp (only when the tree carries the hooks) */
#if defined(LIBERASURECODE_VERIF) && defined(__has_include)
# if __has_include("erasurecode_verif.h")
SA(LIBEC_VP_LOOKUP_STEP == 1 && LIBEC_VP_LOCK_TRY == 13 && LIBEC_VP_BLOCKED == 14 && LIBEC_VP_UNLOCK == 15, "hook point ids");
# endif
#endif

/* prototypes: a changed signature is a compile error here */
static int (*const p_create)(const ec_backend_id_t, struct ec_args *) = liberasurecode_instance_create;
static int (*const p_destroy)(int) = liberasurecode_instance_destroy;
static int (*const p_encode)(int, const char *, uint64_t, char ***, char ***, uint64_t *) = liberasurecode_encode;
static int (*const p_encode_cleanup)(int, char **, char **) = liberasurecode_encode_cleanup;
static int (*const p_decode)(int, char **, int, uint64_t, int, char **, uint64_t *) = liberasurecode_decode;
static int (*const p_decode_cleanup)(int, char *) = liberasurecode_decode_cleanup;
static int (*const p_reconstruct)(int, char **, int, uint64_t, int, char *) = liberasurecode_reconstruct_fragment;
static int (*const p_needed)(int, int *, int *, int *) = liberasurecode_fragments_needed;
static int (*const p_meta)(char *, fragment_metadata_t *) = liberasurecode_get_fragment_metadata;
static int (*const p_invalid)(int, char *) = is_invalid_fragment;
static int (*const p_verify)(int, char **, int) = liberasurecode_verify_stripe_metadata;
static int (*const p_aligned)(int, uint64_t) = liberasurecode_get_aligned_data_size;
static int (*const p_min)(int) = liberasurecode_get_minimum_encode_size;
static int (*const p_fragsize)(int, int) = liberasurecode_get_fragment_size;
static uint32_t (*const p_version)(void) = liberasurecode_get_version;
static int (*const p_avail)(const ec_backend_id_t) = liberasurecode_backend_available;
const void *abi_probe_refs[] = { (const void *)p_create, (const void *)p_destroy, (const void *)p_encode, (const void *)p_encode_cleanup,
    (const void *)p_decode, (const void *)p_decode_cleanup, (const void *)p_reconstruct, (const void *)p_needed, (const void *)p_meta,
    (const void *)p_invalid, (const void *)p_verify, (const void *)p_aligned, (const void *)p_min, (const void *)p_fragsize,
    (const void *)p_version, (const void *)p_avail };
#endif
