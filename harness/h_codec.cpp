// C01 (round trip), C02 (no silent corruption), C03 (reconstruct fidelity), C20 (forced checks)
#include "lib.hpp"
using namespace fw;
using namespace lib;

static uint64_t maskof(const std::vector<int> &v, int n) {
    uint64_t b = 0;
    for (int x : v) if (x >= 0 && x < n) b |= 1ull << x;
    return b;
}

// ---------------------------------------------------------------------------------------------
// One codec case: encode, present a multiset of fragments, decode and/or reconstruct.
// All three oracles (C01/C02/C03) are applied together; they are mutually consistent:
//   within tolerance          -> decode exact, reconstruct(d) == encode's fragment d
//   otherwise                 -> exact or negative error
//   destination out of range  -> negative error, output untouched
static Result run_codec(const Case &c) {
    Result r;
    Config g = cfg_from(c);
    if (ref::is_isa(g.backend) && !isa_available()) { r.skipped = true; return r; }
    std::vector<uint8_t> data = expand_buffer(c, "data");
    bool pooled = c.get("pool", 0) != 0;
    std::unique_ptr<Instance> own;
    Instance *inp;
    if (pooled) { inp = pool().get(g); r.window = true; r.cls("pooled_instance"); }
    else { own.reset(new Instance(g)); inp = own.get(); }
    Instance &in = *inp;
    if (!in.ok()) { r.fail("create refused a supported configuration rc=" + std::to_string(in.desc)); return r; }
    int wenv = (int)c.get("wenv", 0);          // value of the legacy-CRC switch while the stripe is written / rebuilt
    if (wenv) { setenv("LIBERASURECODE_WRITE_LEGACY_CRC", wenv == 1 ? "1" : wenv == 2 ? "0" : "yes", 1); r.cls("legacy_env_" + std::to_string(wenv)); }
    struct EnvReset { ~EnvReset() { unsetenv("LIBERASURECODE_WRITE_LEGACY_CRC"); } } env_reset;
    Stripe s = encode(in.desc, g, data);
    if (s.rc != 0) { r.fail("encode failed rc=" + std::to_string(s.rc)); return r; }
    if (s.cleanup_rc != 0) { r.fail("encode_cleanup rc=" + std::to_string(s.cleanup_rc)); return r; }
    if ((int)s.frags.size() != g.n()) { r.fail("fragment count"); return r; }
    // who reads: the instance that wrote the stripe, or a FRESH instance of the same configuration that has never encoded
    // or decoded anything (1: it decodes first, 2: its very first operation is a rebuild)
    int rdesc = in.desc;
    std::unique_ptr<Instance> reader;
    int fresh_reader = (int)c.get("fresh_reader", 0);
    if (fresh_reader) {
        reader.reset(new Instance(g));
        if (!reader->ok()) { r.fail("create of a second instance of the same configuration failed rc=" + std::to_string(reader->desc)); return r; }
        rdesc = reader->desc;
        r.cls(fresh_reader == 2 ? "fresh_reader_rebuild_first" : "fresh_reader");
    }
    const bool do_decode = c.get("decode", 1) != 0 && fresh_reader != 2;
    int n = g.n(), t = ref::tolerance(g);
    std::vector<int> present = c.ints("present"), align = c.ints("align"), dests = c.ints("dests");
    uint64_t pm = maskof(present, n);
    int missing = n - __builtin_popcountll(pm);
    bool within = missing <= t;
    bool must_exact = within;
    if (g.backend == ref::B_ISA_V && within && !ref::isa_first_k_invertible(g, pm)) { must_exact = false; r.cls("isa_v_first_k_singular"); }
    bool recov = ref::recoverable(g, pm);
    std::vector<const std::vector<uint8_t> *> frs;
    for (int p : present) frs.push_back(&s.frags[p]);
    bool erased_data = false;
    for (int i = 0; i < g.k; i++) if (!(pm >> i & 1)) erased_data = true;
    bool has_dup = (int)present.size() != __builtin_popcountll(pm);
    bool unaligned = false;
    for (size_t i = 0; i < present.size() && i < align.size(); i++) if (align[i] & 15) unaligned = true;
    int force = (int)c.get("force");

    r.cls(std::string("be_") + be_name(g.backend));
    r.cls(within ? "within_tolerance" : (recov ? "beyond_tolerance_recoverable" : "unrecoverable"));
    if (missing == t) r.cls("erasures_eq_tolerance");
    if (n == 32) r.cls("n32");
    if (data.size() % ((size_t)g.k * ref::word_bytes(g))) r.cls("len_not_multiple");
    if (data.empty()) r.cls("len0");
    if (unaligned) r.cls("unaligned");
    if (has_dup) r.cls("duplicates");
    if (force) r.cls("force");
    if (erased_data) r.cls("data_erased");
    if (g.ct == CT_CRC32) r.cls("crc32");

    int guard = (int)c.get("guard", 0);
    if (guard && do_decode) {
        // same call with every input on read-only pages ending/starting at guard pages: a write to an input or a
        // read outside it is a fault (C02: "never read or write outside the buffers they were given")
        GuardedSet gset; gset.build(frs, align, guard);
        char *out = nullptr; uint64_t ol = 0;
        int rc = liberasurecode_decode(rdesc, gset.ptrs, gset.count, s.fraglen, force, &out, &ol);
        if (rc == 0) { if (ol != data.size() || (ol && memcmp(out, data.data(), ol))) r.fail("decode (guarded inputs) returned success with wrong bytes"); liberasurecode_decode_cleanup(rdesc, out); }
        else if (rc > 0) r.fail("positive rc");
        else if (must_exact) r.fail("decode (guarded inputs) failed rc=" + std::to_string(rc) + " although erasures are within tolerance");
        for (int d : dests) if (d >= 0 && d < n) {
            std::vector<uint8_t> o(s.fraglen, 0xA5);
            rc = liberasurecode_reconstruct_fragment(rdesc, gset.ptrs, gset.count, s.fraglen, d, (char *)o.data());
            if (rc == 0 && o != s.frags[d]) r.fail("reconstruct (guarded inputs) succeeded with different bytes");
            if (rc < 0 && must_exact) r.fail("reconstruct (guarded inputs) failed within tolerance");
        }
        r.cls("guarded_inputs");
    }
    if (do_decode) {
        FragSet fs; fs.build(frs, align);
        DecodeOut d = decode(rdesc, fs, s.fraglen, force);
        if (!fs.unchanged()) r.fail("decode modified an input fragment");
        if (d.rc == 0) {
            if (d.out_len != data.size() || d.out != data)
                r.fail("decode returned success with wrong bytes (" + first_diff(d.out, data) + "), missing=" + std::to_string(missing) + " tolerance=" + std::to_string(t));
            if (d.cleanup_rc != 0) r.fail("decode_cleanup rc=" + std::to_string(d.cleanup_rc));
        } else if (d.rc > 0) {
            r.fail("decode returned positive code " + std::to_string(d.rc));
        } else if (must_exact) {
            r.fail("decode failed rc=" + std::to_string(d.rc) + " although erasures are within tolerance (missing=" + std::to_string(missing) + ")");
        }
        r.cls(d.rc == 0 ? "decode_ok" : "decode_err");
    }
    // what the caller's output buffer held before the call (reconstruct is the one call that writes into caller memory):
    // 0 poison, 1 the same fragment index of ANOTHER stripe of the same geometry (a rebuild loop reusing its buffer),
    // 2 the right header over a zeroed payload
    int out_prefill = (int)c.get("out_prefill", 0);
    std::vector<std::vector<uint8_t>> other;
    if (out_prefill == 1) {
        std::vector<uint8_t> d2 = data;
        for (auto &b : d2) b ^= 0x5c;
        other = ref::serialize_stripe(g, d2.data(), d2.size(), liberasurecode_get_version(), false);
        r.cls("output_buffer_holds_other_stripe");
    }
    for (int d : dests) {
        FragSet fs; fs.build(frs, align);
        std::vector<uint8_t> pf;
        if (d >= 0 && d < n) {
            if (out_prefill == 1 && !other.empty()) pf = other[d];
            else if (out_prefill == 2) { pf.assign(s.frags[d].begin(), s.frags[d].begin() + std::min<size_t>(80, s.frags[d].size())); pf.resize(s.frags[d].size(), 0); }
        }
        ReconOut o = reconstruct(rdesc, fs, s.fraglen, d, pf.empty() ? nullptr : &pf);
        if (!fs.unchanged()) r.fail("reconstruct modified an input fragment");
        bool in_range = d >= 0 && d < n;
        if (!in_range) {
            if (o.rc >= 0) r.fail("reconstruct accepted out-of-range destination " + std::to_string(d) + " rc=" + std::to_string(o.rc));
            r.cls("dest_out_of_range");
            if (!o.untouched) r.cls("rejected_but_output_written");     // not demanded by the statement; recorded only
            continue;
        }
        if (o.rc == 0) {
            if (o.out != s.frags[d])
                r.fail("reconstruct(" + std::to_string(d) + ") succeeded with bytes different from encode's fragment (" + first_diff(o.out, s.frags[d]) + "), missing=" + std::to_string(missing));
        } else if (o.rc > 0) {
            r.fail("reconstruct returned positive code");
        } else if (must_exact) {
            r.fail("reconstruct(" + std::to_string(d) + ") failed rc=" + std::to_string(o.rc) + " although erasures are within tolerance (missing=" + std::to_string(missing) + ")");
        }
        r.cls((pm >> d & 1) ? "dest_present" : (d < g.k ? "dest_lost_data" : "dest_lost_parity"));
    }
    return r;
}

// non-trivial rules per property
static Result run_c01(const Case &c) {
    Result r = run_codec(c);
    Config g = cfg_from(c);
    bool erased_data = false;
    uint64_t pm = maskof(c.ints("present"), g.n());
    for (int i = 0; i < g.k; i++) if (!(pm >> i & 1)) erased_data = true;
    r.nontrivial = erased_data && !buffer_is_constant(expand_buffer(c, "data"));
    return r;
}
static Result run_c02(const Case &c) {
    Result r = run_codec(c);
    Config g = cfg_from(c);
    uint64_t pm = maskof(c.ints("present"), g.n());
    int missing = g.n() - __builtin_popcountll(pm);
    r.nontrivial = missing > ref::tolerance(g) || !ref::recoverable(g, pm);
    return r;
}
static Result run_c03(const Case &c) {
    Result r = run_codec(c);
    Config g = cfg_from(c);
    uint64_t pm = maskof(c.ints("present"), g.n());
    int missing = g.n() - __builtin_popcountll(pm), t = ref::tolerance(g);
    bool lost_data = false, lost_par = false;
    for (int i = 0; i < g.n(); i++) if (!(pm >> i & 1)) (i < g.k ? lost_data : lost_par) = true;
    bool nt = false;
    for (int d : c.ints("dests")) {
        if (d < 0 || d >= g.n()) continue;
        if (missing == t && lost_data && lost_par && d >= g.k && !(pm >> d & 1)) nt = true;
        if (g.backend == ref::B_XOR && missing >= 2) nt = true;
        if (missing >= 2 && !(pm >> d & 1)) nt = true;
    }
    r.nontrivial = nt;
    return r;
}

// ------------------------------------------------------------------------------------ generators
static std::vector<int> gen_erasures(const Config &g, int e) {
    int n = g.n();
    std::vector<int> all(n);
    for (int i = 0; i < n; i++) all[i] = i;
    int bias = weighted({2, 2, 1});   // uniform, data first, parity first
    std::vector<int> E;
    std::vector<bool> gone(n, false);
    for (int j = 0; j < e; j++) {
        int lo = 0, hi = n - 1;
        if (bias == 1 && coin(3, 4)) hi = g.k - 1;
        if (bias == 2 && coin(3, 4)) lo = g.k;
        if (lo > hi) { lo = 0; hi = n - 1; }
        int x = (int)pick(lo, hi), tries = 0;
        while (gone[x] && tries < 64) { x = (x + 1) % n; tries++; }
        if (gone[x]) break;
        gone[x] = true; E.push_back(x);
    }
    return E;
}
static void gen_arrangement(Case &c, const Config &g, const std::vector<int> &erased, bool allow_dups) {
    int n = g.n();
    std::vector<bool> gone(n, false);
    for (int x : erased) gone[x] = true;
    std::vector<int> present;
    for (int i = 0; i < n; i++) if (!gone[i]) present.push_back(i);
    if (!present.empty() && coin(2, 3)) {       // shuffle (Fisher-Yates with generated picks)
        for (int i = (int)present.size() - 1; i > 0; i--) std::swap(present[i], present[pick(0, i)]);
    }
    if (allow_dups && !present.empty()) {
        int nd = weighted({6, 2, 1, 1});
        if (coin(1, 12)) nd = (int)pick(4, 70);          // lists longer than k+m and longer than 32 entries
        for (int j = 0; j < nd; j++) {
            int v = present[pick(0, (int64_t)present.size() - 1)];
            present.insert(present.begin() + pick(0, (int64_t)present.size()), v);
        }
    }
    std::vector<int> align(present.size(), 0);
    if (coin()) for (auto &a : align) a = coin() ? 0 : (int)pick(1, 15);
    c.setv("present", present);
    c.setv("align", align);
}
static size_t len_cap() { return (size_t)opts().geti("maxlen", 1 << 20); }     // both tiers reach 2^20 (about 1 case in 12 draws from the full range)

static Case gen_c01() {
    Case c;
    Config g = gen_config(G_REAL);
    cfg_to(c, g);
    size_t len = gen_length(g, len_cap());
    gen_buffer(c, "data", len);
    int t = ref::tolerance(g);
    int e = coin() ? t : (int)pick(0, t);
    if (coin(1, 10)) e = 0;   // surplus: nothing missing
    gen_arrangement(c, g, gen_erasures(g, e), true);
    c.set("force", coin(1, 3) ? (coin(1, 5) ? (int)pick(2, 255) * (coin() ? 1 : -1) : 1) : 0);      // any non-zero value asks for the checks
    c.set("decode", 1);
    c.setl("dests", {});
    c.set("pool", coin(1, 3) ? 1 : 0);
    c.set("wenv", weighted({6, 2, 1, 1}));
    c.set("guard", coin(1, 6) ? (int)pick(1, 65535) : 0);      // also with every input on read-only pages next to guard pages
    c.set("fresh_reader", weighted({5, 1, 0}));
    return c;
}
static Case gen_c02() {
    Case c;
    Config g = gen_config(G_REAL);
    cfg_to(c, g);
    size_t len = gen_length(g, std::min<size_t>(len_cap(), 8192));
    gen_buffer(c, "data", len);
    int n = g.n(), t = ref::tolerance(g);
    // sizes of the erasure set: biased just beyond tolerance, also far beyond and everything
    int e;
    switch (weighted({4, 3, 2, 1, 1})) {
    case 0: e = std::min(n, t + 1); break;
    case 1: e = (int)pick(std::min(n, t + 1), std::min(n, g.m + 1)); break;
    case 2: e = (int)pick(0, n); break;
    case 3: e = n; break;
    default: e = (int)pick(0, t); break;
    }
    gen_arrangement(c, g, gen_erasures(g, e), true);
    c.set("force", coin(1, 3) ? 1 : 0);
    c.set("decode", 1);
    std::vector<int> dests;
    int nd = (int)pick(0, 3);
    for (int j = 0; j < nd; j++) dests.push_back((int)pick(0, n - 1));
    c.setv("dests", dests);
    c.set("pool", coin(1, 3) ? 1 : 0);
    c.set("guard", coin(1, 4) ? (int)pick(1, 65535) : 0);
    c.set("fresh_reader", weighted({4, 1, 1}));
    return c;
}
static Case gen_c03() {
    Case c;
    Config g = gen_config(G_REAL);
    cfg_to(c, g);
    size_t len = gen_length(g, std::min<size_t>(len_cap(), 1 << 16));
    gen_buffer(c, "data", len);
    int n = g.n(), t = ref::tolerance(g);
    int e = coin(2, 3) ? t : (int)pick(0, t);
    std::vector<int> E = gen_erasures(g, e);
    gen_arrangement(c, g, E, true);
    c.set("force", 0);
    c.set("decode", 0);
    std::vector<int> dests;
    int nd = (int)pick(1, 3);
    for (int j = 0; j < nd; j++) {
        switch (weighted({6, 2, 2})) {
        case 0: if (!E.empty()) { dests.push_back(E[pick(0, (int64_t)E.size() - 1)]); break; }  // fallthrough
        case 1: dests.push_back((int)pick(0, n - 1)); break;
        default: {
            static const int64_t bad[] = {-1, 0, 1, 2147483647ll, -2147483648ll, -2, 33, 64, 1000};
            int which = (int)pick(0, 8);
            int64_t v = which == 1 ? n : which == 2 ? n + 1 : bad[which];
            if (which == 0) v = -1;
            dests.push_back((int)v);
        }
        }
    }
    c.setv("dests", dests);
    c.set("pool", coin(1, 3) ? 1 : 0);
    c.set("wenv", weighted({6, 2, 1, 1}));
    c.set("out_prefill", weighted({3, 2, 1}));
    c.set("fresh_reader", weighted({4, 1, 2}));
    return c;
}

// ------------------------------------------------------------------------------------ sweeps
static Case base_case(const Config &g, size_t len, uint64_t seed, int cls = BUF_RANDOM) {
    Case c; cfg_to(c, g);
    c.set("data_cls", cls); c.set("data_seed", (int64_t)seed); c.set("data_len", (int64_t)len);
    return c;
}
// enumerate all subsets of size e of [0,n)
template <class F> static void for_subsets(int n, int e, F f) {
    std::vector<int> idx(e);
    for (int i = 0; i < e; i++) idx[i] = i;
    if (e > n) return;
    for (;;) {
        f(idx);
        int i = e - 1;
        while (i >= 0 && idx[i] == n - e + i) i--;
        if (i < 0) break;
        idx[i]++;
        for (int j = i + 1; j < e; j++) idx[j] = idx[j - 1] + 1;
    }
}
static void present_from_erased(Case &c, int n, const std::vector<int> &E) {
    std::vector<bool> gone(n, false);
    for (int x : E) gone[x] = true;
    std::vector<int> p;
    for (int i = 0; i < n; i++) if (!gone[i]) p.push_back(i);
    c.setv("present", p);
    c.setl("align", {});
}

// XOR: all tables, all erasure sets below hd: decode + reconstruct of every lost index and one present
static void sweep_xor_within(const RunFn &run, bool all_dests) {
    Stats &s = stats();
    int shard = (int)opts().shard, ns = (int)opts().nshards, counter = 0;
    for (int si = 0; si < ref::N_XOR_SHAPES; si++) {
        const ref::XorShape &sh = ref::XOR_SHAPES[si];
        Config g; g.backend = ref::B_XOR; g.k = sh.k; g.m = sh.m; g.hd = sh.hd; g.w = 0; g.ct = (si & 1) ? CT_CRC32 : CT_NONE;
        int n = g.n();
        for (int e = 0; e < sh.hd; e++)
            for_subsets(n, e, [&](const std::vector<int> &E) {
                if ((counter++ % ns) != shard) return;
                size_t len = (size_t)g.k * 4 * (1 + (counter % 5)) + (counter % 3) - 1;   // around multiples of k*4
                Case c = base_case(g, len, 1000 + counter);
                present_from_erased(c, n, E);
                c.set("force", 0); c.set("decode", 1);
                std::vector<int> dests(E.begin(), E.end());
                if (all_dests) { dests.clear(); for (int d = 0; d < n; d++) dests.push_back(d); }
                else if (n > (int)E.size()) { int d = counter % n; if (std::find(E.begin(), E.end(), d) == E.end()) dests.push_back(d); }
                c.setv("dests", dests);
                c.set("out_prefill", counter % 3);
                sweep_case(c, run);
            });
    }
    s.exhaustive = true;
    s.extra["xor_tables"] = ref::N_XOR_SHAPES;
}
// C05 (d): every table, every erasure set below hd, payload sizes that are and are not multiples of 16;
// decode + reconstruct of every lost index and (thorough: every index) one present index
static Result run_c05(const Case &c) {
    Result r = run_codec(c);
    Config g = cfg_from(c);
    int missing = g.n() - __builtin_popcountll(maskof(c.ints("present"), g.n()));
    bool parity_dest = false;
    for (int d : c.ints("dests")) if (d >= g.k) parity_dest = true;
    r.nontrivial = missing >= 2 || parity_dest;
    return r;
}
static void sweep_xor_c05() {
    static const int pays[] = {4, 8, 12, 20, 36, 100, 4100};
    bool th = opts().tier == "thorough";
    int shard = (int)opts().shard, ns = (int)opts().nshards, counter = 0;
    for (int si = 0; si < ref::N_XOR_SHAPES; si++) {
        const ref::XorShape &sh = ref::XOR_SHAPES[si];
        Config g; g.backend = ref::B_XOR; g.k = sh.k; g.m = sh.m; g.hd = sh.hd; g.w = 0; g.ct = (si & 1) ? CT_CRC32 : CT_NONE;
        int n = g.n();
        for (int e = 0; e < sh.hd; e++)
            for_subsets(n, e, [&](const std::vector<int> &E) {
                if ((counter++ % ns) != shard) return;
                for (int pi = 0; pi < 7; pi++) {
                    if (!th && pi != (counter % 7)) continue;
                    if (th && pays[pi] == 4100 && (counter % 16)) continue;   // large payload on a 1/16 sample
                    Case c = base_case(g, (size_t)g.k * pays[pi], 70000 + counter + pi);
                    present_from_erased(c, n, E);
                    c.set("force", 0); c.set("decode", 1);
                    std::vector<int> dests(E.begin(), E.end());
                    if (th) { dests.clear(); for (int d = 0; d < n; d++) dests.push_back(d); }
                    else { int d = counter % n; if (std::find(E.begin(), E.end(), d) == E.end()) dests.push_back(d); }
                    c.setv("dests", dests);
                    // every other case also with all inputs (fragments and pointer list) on read-only pages: the decoder
                    // may not use a surviving fragment as scratch space, not even if it puts the bytes back
                    c.set("guard", (counter % 2) ? 1 + (counter & 0xfff) : 0);
                    sweep_case(c, run_c05);
                }
            });
    }
    stats().exhaustive = true;
    stats().extra["xor_tables"] = ref::N_XOR_SHAPES;
}
// payload sizes around powers of two from 64 KiB to 4 MiB (size-gated bulk paths), aligned and unaligned survivors
static void sweep_large(const RunFn &run, bool xor_only = false) {
    int shard = (int)opts().shard, ns = (int)opts().nshards, counter = 0;
    bool th = opts().tier == "thorough";
    std::vector<Config> cfgs;
    { Config g; g.backend = ref::B_XOR; g.k = 3; g.m = 3; g.hd = 3; g.ct = CT_CRC32; cfgs.push_back(g); }
    { Config g; g.backend = ref::B_RS; g.k = 3; g.m = 2; g.hd = 2; g.ct = CT_NONE; cfgs.push_back(g); }
    { Config g; g.backend = ref::B_XOR; g.k = 5; g.m = 5; g.hd = 4; g.ct = CT_NONE; cfgs.push_back(g); }
    if (isa_available()) { Config g; g.backend = ref::B_ISA_C; g.k = 4; g.m = 2; g.hd = 2; g.w = 8; g.ct = CT_NONE; cfgs.push_back(g); }
    if (xor_only) {
        cfgs.erase(std::remove_if(cfgs.begin(), cfgs.end(), [](const Config &g) { return g.backend != ref::B_XOR; }), cfgs.end());
        { Config g; g.backend = ref::B_XOR; g.k = 6; g.m = 6; g.hd = 3; g.ct = CT_NONE; cfgs.push_back(g); }
    }
    for (auto &g : cfgs)
        for (int p = 16; p <= (th ? 22 : 21); p++)
            for (int dlt : {-4, 0, 4, 8, 12, 16}) {
                if (!th && (p + dlt / 4) % 2 && dlt != 0 && dlt != 4) continue;
                if ((counter++ % ns) != shard) continue;
                int ws = ref::word_bytes(g);
                size_t pay = ((size_t)1 << p) + dlt;
                pay = pay / ws * ws;
                Case c = base_case(g, pay * g.k - (counter % 2), 800000 + counter);
                int n = g.n(), t = ref::tolerance(g);
                std::vector<int> E = {counter % g.k};
                if (t >= 2) E.push_back(g.k + counter % g.m);
                present_from_erased(c, n, E);
                std::vector<int> al(n - (int)E.size(), 0);
                if (counter % 3 == 1) for (size_t i = 0; i < al.size(); i++) al[i] = (int)(1 + (counter + i * 5) % 15);
                if (counter % 3 == 2) al[counter % al.size()] = 8;
                c.setv("align", al);
                c.set("force", counter & 1); c.set("decode", 1);
                c.setv("dests", E);
                sweep_case(c, run);
            }
    stats().extra["large_payload_log2_max"] = th ? 22 : 21;
}
// RS (and ISA): every (k,m) once with |E| = m, half data lost
static void sweep_rs_boundary(const RunFn &run, int backend, bool parity_dests) {
    int shard = (int)opts().shard, ns = (int)opts().nshards, counter = 0;
    for (int k = 1; k <= 31; k++)
        for (int m = 1; k + m <= 32; m++) {
            if ((counter++ % ns) != shard) continue;
            Config g; g.backend = backend; g.k = k; g.m = m; g.hd = m; g.w = 0; g.ct = (counter & 1) ? CT_CRC32 : CT_NONE;
            int n = k + m;
            // deterministic erasure set: ceil(m/2) data (spread) + rest parity
            std::vector<int> E;
            uint64_t sd = 77 + counter;
            int nd = std::min(k, (m + 1) / 2);
            std::vector<bool> gone(n, false);
            while ((int)E.size() < nd) { int x = (int)(splitmix64(sd) % k); if (!gone[x]) { gone[x] = true; E.push_back(x); } }
            while ((int)E.size() < m) { int x = k + (int)(splitmix64(sd) % m); if (!gone[x]) { gone[x] = true; E.push_back(x); } }
            size_t len = (size_t)k * ref::word_bytes(g) * 3 + (counter % 3) - 1;
            Case c = base_case(g, len, 5000 + counter);
            present_from_erased(c, n, E);
            c.set("force", counter & 1); c.set("decode", 1);
            std::vector<int> dests;
            for (int x : E) if (!parity_dests || x >= k) dests.push_back(x);
            if (parity_dests) for (int x : E) if (x < k) { dests.push_back(x); break; }
            c.setv("dests", dests);
            c.set("out_prefill", (counter / 2) % 3);
            c.set("fresh_reader", (counter / 3) % 3);
            sweep_case(c, run);
        }
    stats().extra["rs_shapes"] = 496;
}
// C02: all 2^n subsets of small codes, decode + two reconstruct destinations
static void sweep_all_subsets(const RunFn &run, int max_n_xor, int max_n_rs) {
    int shard = (int)opts().shard, ns = (int)opts().nshards, counter = 0;
    std::vector<Config> cfgs;
    for (int si = 0; si < ref::N_XOR_SHAPES; si++) {
        const ref::XorShape &sh = ref::XOR_SHAPES[si];
        if (sh.k + sh.m > max_n_xor) continue;
        Config g; g.backend = ref::B_XOR; g.k = sh.k; g.m = sh.m; g.hd = sh.hd; g.ct = CT_NONE; cfgs.push_back(g);
    }
    for (int k = 1; k < max_n_rs; k++) for (int m = 1; k + m <= max_n_rs; m++) {
        Config g; g.backend = ref::B_RS; g.k = k; g.m = m; g.hd = m; g.ct = CT_CRC32; cfgs.push_back(g);
        if (isa_available() && k + m <= max_n_rs - 2) {
            g.backend = ref::B_ISA_V; cfgs.push_back(g);
            g.backend = ref::B_ISA_C; cfgs.push_back(g);
        }
    }
    for (auto &g : cfgs) {
        int n = g.n();
        for (uint64_t mask = 0; mask < (1ull << n); mask++) {
            if ((counter++ % ns) != shard) continue;
            Case c = base_case(g, (size_t)g.k * ref::word_bytes(g) * 2 + 1, 9000 + (counter & 1023));
            std::vector<int> p;
            for (int i = 0; i < n; i++) if (mask >> i & 1) p.push_back(i);
            c.setv("present", p); c.setl("align", {});
            c.set("force", 0); c.set("decode", 1);
            std::vector<int> dests;
            // one missing and one present destination (rotating)
            for (int j = 0; j < n; j++) { int d = (int)((counter + j) % n); if (!(mask >> d & 1)) { dests.push_back(d); break; } }
            for (int j = 0; j < n; j++) { int d = (int)((counter / 3 + j) % n); if (mask >> d & 1) { dests.push_back(d); break; } }
            c.setv("dests", dests);
            // subsets the code must handle are also presented on guarded read-only pages
            if (n - __builtin_popcountll(mask) <= ref::tolerance(g) && (counter % 2) == 0) c.set("guard", 1 + (counter & 0x3ff));
            c.set("fresh_reader", (counter / 5) % 3);        // writer reads / a fresh instance reads / a fresh instance rebuilds first
            sweep_case(c, run);
        }
    }
    stats().exhaustive = true;
    stats().extra["configs_all_subsets"] = (int64_t)cfgs.size();
}
// C02: flat-XOR band: all erasure sets of size hd..m (what the front end lets through) for every table
static void sweep_xor_band(const RunFn &run, int max_e_extra) {
    int shard = (int)opts().shard, ns = (int)opts().nshards, counter = 0;
    for (int si = 0; si < ref::N_XOR_SHAPES; si++) {
        const ref::XorShape &sh = ref::XOR_SHAPES[si];
        Config g; g.backend = ref::B_XOR; g.k = sh.k; g.m = sh.m; g.hd = sh.hd; g.ct = CT_NONE;
        int n = g.n();
        for (int e = sh.hd; e <= std::min(sh.m + 1, sh.hd + max_e_extra); e++)
            for_subsets(n, e, [&](const std::vector<int> &E) {
                if ((counter++ % ns) != shard) return;
                Case c = base_case(g, (size_t)g.k * 4 + 3, 12000 + (counter & 255));
                present_from_erased(c, n, E);
                c.set("force", 0); c.set("decode", 1);
                c.setl("dests", {E[counter % E.size()]});
                c.set("guard", (counter % 3 == 0) ? 1 + (counter & 0xfff) : 0);
                sweep_case(c, run);
            });
    }
    stats().exhaustive = true;
}

// ============================================================================================ C20
// damage kinds per presented fragment: 0 none, 1 payload bit flip, 2 header field edit re-sealed,
// 3 header byte damaged without re-sealing
static Result run_c20(const Case &c) {
    Result r;
    Config g = cfg_from(c);
    if (ref::is_isa(g.backend) && !isa_available()) { r.skipped = true; return r; }
    std::vector<uint8_t> data = expand_buffer(c, "data");
    if (c.get("crc0", 0) && make_crc0(g, data, (int)((c.get("crc0") - 1) % g.k))) r.cls("payload_crc_zero");
    Instance in(g);
    if (!in.ok()) { r.fail("create refused rc=" + std::to_string(in.desc)); return r; }
    // the stripe may have been written with the historical CRC (documented compatibility switch); validity of a
    // fragment at decode time does not depend on the switch
    if (c.get("legacy_writer")) setenv("LIBERASURECODE_WRITE_LEGACY_CRC", "1", 1);
    Stripe s = encode(in.desc, g, data);
    unsetenv("LIBERASURECODE_WRITE_LEGACY_CRC");
    if (c.get("legacy_writer")) r.cls("legacy_written_stripe");
    if (s.rc != 0) { r.fail("encode failed"); return r; }
    int n = g.n(), t = ref::tolerance(g);
    std::vector<int> present = c.ints("present"), align = c.ints("align"), kind = c.ints("dmg_kind"), arg = c.ints("dmg_arg"), val = c.ints("dmg_val");
    uint32_t running = liberasurecode_get_version();
    std::vector<std::vector<uint8_t>> bufs;
    uint64_t vmask = 0;
    bool dmg_data = false, any_dmg = false;
    for (size_t i = 0; i < present.size(); i++) {
        std::vector<uint8_t> f = s.frags[present[i]];
        int kd = i < kind.size() ? kind[i] : 0;
        int64_t a = i < arg.size() ? arg[i] : 0, v = i < val.size() ? val[i] : 0;
        size_t paylen = f.size() - HDR;
        // kinds 4 and 5 re-seal a header edit that validation is specified to ignore for CRC32 fragments (the STORED
        // mismatch byte, which the library recomputes; the unused checksum words): 5 = that alone (fragment stays valid),
        // 4 = together with payload damage on the same fragment (two independent conditions on one fragment)
        bool benign = (kd == 4 || kd == 5) && f[ref::O_CT] == 2;
        if (kd == 4 || kd == 5) {
            if (benign) {
                if ((a >> 3) % 2 == 0) f[ref::O_MISM] = (uint8_t)(1 + v % 255);
                else ref::put32(&f[ref::O_CHK + 4 * (1 + (v % 7))], 0x01000000u | (uint32_t)v * 2654435761u);
                ref::reseal(f.data());
                r.cls("benign_resealed_edit");
            }
            kd = kd == 4 ? 1 : 0;
        }
        if (kd == 1 && paylen > 0) {
            size_t bit = (size_t)a % (paylen * 8);
            if (v % 3 == 0) bit = paylen * 8 - 1 - (size_t)a % std::min<size_t>(paylen * 8, 64);      // a third of the flips land in the last 8 payload bytes
            f[HDR + bit / 8] ^= (uint8_t)(1u << (bit % 8));
        }
        else if (kd == 1) kd = 0;
        if (kd == 2) {
            switch (a % 4) {
            case 0: ref::put32(&f[ref::O_IDX], (uint32_t)(n + (v % 5))); break;                 // idx outside 0..n-1
            case 1: f[ref::O_BEID] = (uint8_t)(f[ref::O_BEID] + 1 + (v % 7)); break;            // foreign back end
            case 2: ref::put32(&f[ref::O_BEVER], ref::get32(&f[ref::O_BEVER]) + 1 + (uint32_t)(v % 3)); break;
            default: ref::put32(&f[ref::O_LIBVER], running + 1 + (uint32_t)(v % 1000)); break;  // written by a newer library
            }
            ref::reseal(f.data());
        }
        if (kd == 3) { size_t off = (size_t)a % 71; uint8_t x = (uint8_t)(1 + (v % 255)); f[off] ^= x; }
        if (kd == 6) {
            // the whole header as a host of the other byte order stores it, sealed accordingly (payload untouched): a
            // consistent header, but not one this host may decode from - validation must drop it like any other invalid one
            auto sw32 = [&](int off) { ref::put32(&f[off], __builtin_bswap32(ref::get32(&f[off]))); };
            sw32(ref::O_IDX); sw32(ref::O_SIZE); sw32(ref::O_BMS);
            uint64_t o = ref::get64(&f[ref::O_ORIG]);
            ref::put64(&f[ref::O_ORIG], ((uint64_t)__builtin_bswap32((uint32_t)o) << 32) | __builtin_bswap32((uint32_t)(o >> 32)));
            for (int q = 0; q < 8; q++) sw32(ref::O_CHK + 4 * q);
            sw32(ref::O_BEVER); sw32(ref::O_MAGIC); sw32(ref::O_LIBVER);
            ref::put32(&f[ref::O_MCRC], __builtin_bswap32(ref::crc32_std(f.data(), ref::META_LEN)));
        }
        bool valid = !ref::fragment_invalid(g, running, f.data());
        if (kd != 0 && valid) { r.skipped = true; return r; }   // damage that validation is not specified to catch (e.g. CRC-colliding)
        if (kd == 0 && !valid) { r.fail("reference considers an untouched fragment invalid (model error)"); return r; }
        if (valid) vmask |= 1ull << present[i];
        if (kd) { any_dmg = true; if (present[i] < g.k) dmg_data = true; r.cls("dmg_kind_" + std::to_string(kd)); }
        bufs.push_back(std::move(f));
    }
    // History before the decode, in the SAME buffers: `pre` lists positions that are validated (and found
    // good) while still undamaged; the damage is then applied in place. With pre_heal the order is reversed:
    // the damaged content is validated first, then healed in place (all fragments valid at decode time).
    std::vector<int> pre = c.ints("pre");
    bool heal = c.get("pre_heal") != 0 && !pre.empty();
    std::vector<std::vector<uint8_t>> first;           // content the buffers hold during the pre-validation
    for (size_t i = 0; i < present.size(); i++) first.push_back(heal ? bufs[i] : s.frags[present[i]]);
    std::vector<const std::vector<uint8_t> *> frs;
    for (auto &b : (pre.empty() ? bufs : first)) frs.push_back(&b);
    FragSet fs; fs.build(frs, align);
    if (!pre.empty()) {
        for (int pos : pre) {
            if (pos < 0 || pos >= fs.count) continue;
            int inv = is_invalid_fragment(in.desc, fs.ptrs[pos]);
            bool want_inv = ref::fragment_invalid(g, running, first[pos].data());
            if ((inv != 0) != want_inv) r.fail("pre-validation verdict of fragment at position " + std::to_string(pos) + " differs from the reference");
        }
        // now rewrite the buffers in place with what decode must see
        if (heal) { for (size_t i = 0; i < present.size(); i++) bufs[i] = s.frags[present[i]]; vmask = maskof(present, n); any_dmg = false; dmg_data = false; }
        for (int i = 0; i < fs.count; i++) { memcpy(fs.ptrs[i], bufs[i].data(), bufs[i].size()); fs.copies[i] = bufs[i]; }
        r.cls(heal ? "prevalidated_then_healed" : "prevalidated_then_damaged");
    }
    DecodeOut d = decode(in.desc, fs, s.fraglen, (int)c.get("force_value", 1));
    int missing = n - __builtin_popcountll(vmask);
    bool within = missing <= t;
    bool must_exact = within && !(g.backend == ref::B_ISA_V && !ref::isa_first_k_invertible(g, vmask));
    bool recov = ref::recoverable(g, vmask);
    r.cls(std::string("be_") + be_name(g.backend));
    r.cls(within ? "valid_within_tolerance" : recov ? "valid_beyond_recoverable" : "valid_unrecoverable");
    if (!fs.unchanged()) r.fail("decode modified an input fragment");
    if (d.rc == 0) {
        if (d.out != data) r.fail("WRONG-BYTES: decode(force=1) returned success with bytes that differ from the original (" + first_diff(d.out, data) + "); valid fragments missing=" + std::to_string(missing));
        else if (!recov) r.fail("decode(force=1) succeeded although the valid fragments cannot determine the data");
    } else if (d.rc > 0) r.fail("positive return code");
    else if (must_exact) r.fail("ERROR-THOUGH-SUFFICIENT: decode(force=1) rc=" + std::to_string(d.rc) + " although the valid fragments are within tolerance (missing=" + std::to_string(missing) + ", tolerance=" + std::to_string(t) + ")");
    r.cls(d.rc == 0 ? "decode_ok" : "decode_err");
    r.nontrivial = (any_dmg && dmg_data) || heal;
    return r;
}
static Case gen_c20() {
    Case c;
    Config g = gen_config(G_REAL, CT_CRC32);
    cfg_to(c, g);
    size_t len = gen_length(g, 4096);
    if (len == 0 && coin(3, 4)) len = (size_t)pick(1, 200);
    gen_buffer(c, "data", len);
    int n = g.n(), t = ref::tolerance(g);
    int e = (int)pick(0, std::min(n, t + 1));
    if (coin(1, 3)) e = 0;
    gen_arrangement(c, g, gen_erasures(g, e), true);
    std::vector<int> present = c.ints("present");
    std::vector<int> kind(present.size(), 0), arg(present.size(), 0), val(present.size(), 0);
    int ndmg = present.empty() ? 0 : weighted({1, 4, 3, 2, 1});
    if (coin(1, 8)) ndmg = (int)present.size();
    for (int j = 0; j < ndmg && !present.empty(); j++) {
        int pos = (int)pick(0, (int64_t)present.size() - 1);
        if (coin(2, 3)) {    // prefer data fragments
            for (int tries = 0; tries < 4 && present[pos] >= g.k; tries++) pos = (int)pick(0, (int64_t)present.size() - 1);
        }
        kind[pos] = 1 + weighted({5, 3, 2, 2, 1, 2});
        arg[pos] = (int)pick(0, 1 << 20);
        val[pos] = (int)pick(0, 1 << 16);
    }
    c.setv("dmg_kind", kind); c.setv("dmg_arg", arg); c.setv("dmg_val", val);
    // one case in six: the (first) payload-damaged data fragment legitimately stores checksum 0
    if (coin(1, 6)) {
        int tgt = -1;
        for (size_t i = 0; i < kind.size(); i++) if (kind[i] == 1 && present[i] < g.k) { tgt = present[i]; break; }
        c.set("crc0", tgt >= 0 ? tgt + 1 : (int)pick(1, g.k));
    }
    // one third of the cases validate some fragments in place before they are damaged (or healed)
    std::vector<int> pre;
    if (!present.empty() && coin(1, 3)) {
        int np = (int)pick(1, std::min<int64_t>(4, (int64_t)present.size()));
        for (int j = 0; j < np; j++) pre.push_back((int)pick(0, (int64_t)present.size() - 1));
        if (coin(2, 3)) {        // end on a damaged position, preferably the first one the decoder will look at
            int target = -1;
            for (size_t i = 0; i < kind.size(); i++) if (kind[i] == 1) { target = (int)i; break; }
            if (target >= 0) pre.push_back(target);
        }
    }
    c.setv("pre", pre);
    c.set("pre_heal", (!pre.empty() && coin(1, 4)) ? 1 : 0);
    c.set("legacy_writer", coin(1, 3) ? 1 : 0);
    c.set("force_value", coin(1, 5) ? (int)pick(2, 255) * (coin() ? 1 : -1) : 1);
    return c;
}

// C05 under concurrency: decoders on an existing instance of shape S while other threads create and destroy
// further instances of S (the per-shape tables are shared by all instances of the process)
#include <pthread.h>
#include <atomic>
struct C05Mt { Config g; int desc; const Stripe *s; std::atomic<int> *stop; std::string err; int rounds; uint64_t seed; };
static void *c05_decoder(void *p) {
    C05Mt &a = *(C05Mt *)p;
    int n = a.g.n(), t = ref::tolerance(a.g);
    uint64_t sd = a.seed;
    for (int r = 0; r < a.rounds && a.err.empty(); r++) {
        int e = t >= 2 ? 2 + (int)(splitmix64(sd) % (t - 1)) : 1;
        std::vector<bool> gone(n, false); std::vector<int> E;
        if (a.g.backend == ref::B_XOR && a.g.hd == 4 && (r & 1)) {
            // three data fragments that no single parity isolates (from the golden equations): the decoder has to
            // combine two parities, the one path with scratch space of its own
            const ref::XorShape *sh = ref::xor_shape(a.g.k, a.g.m, a.g.hd);
            for (int tries = 0; tries < 200 && E.empty(); tries++) {
                int x = (int)(splitmix64(sd) % a.g.k), y = (int)(splitmix64(sd) % a.g.k), z = (int)(splitmix64(sd) % a.g.k);
                if (x == y || y == z || x == z) continue;
                uint64_t T = (1ull << x) | (1ull << y) | (1ull << z);
                bool isolated = false;
                for (int j = 0; j < a.g.m; j++) if (__builtin_popcountll(ref::xor_parity_mask(sh, j) & T) == 1) isolated = true;
                if (!isolated) { E = {x, y, z}; gone[x] = gone[y] = gone[z] = true; e = 3; }
            }
        }
        while ((int)E.size() < e) { int x = (int)(splitmix64(sd) % (E.empty() ? a.g.k : n)); if (!gone[x]) { gone[x] = true; E.push_back(x); } }
        std::vector<const std::vector<uint8_t> *> frs; uint64_t pm = 0;
        for (int i = 0; i < n; i++) if (!gone[i]) { frs.push_back(&a.s->frags[i]); pm |= 1ull << i; }
        if (a.g.backend == ref::B_ISA_V) { Config g8 = a.g; g8.w = 8; if (!ref::isa_first_k_invertible(g8, pm)) continue; }     // (not MDS for every shape: such sets may fail)
        FragSet fs; fs.build(frs, {});
        DecodeOut d = decode(a.desc, fs, a.s->fraglen, 0);
        if (d.rc != 0) a.err = "decode of " + std::to_string(e) + " erasures (< hd) failed rc=" + std::to_string(d.rc) + " while instances of the same shape are being created";
        else if (d.out != a.s->data) a.err = "decode returned wrong data while instances of the same shape are being created";
        FragSet f2; f2.build(frs, {});
        ReconOut o = reconstruct(a.desc, f2, a.s->fraglen, E[0]);
        if (a.err.empty() && (o.rc != 0 || o.out != a.s->frags[E[0]])) a.err = "reconstruct failed or differs while instances of the same shape are being created";
        if ((r % 4) == 0 && a.err.empty()) {      // and the same data encodes to the same bytes, whatever the other threads are in the middle of
            Stripe again = encode(a.desc, a.g, a.s->data);
            if (again.rc != 0 || again.frags != a.s->frags) a.err = "encode output differs from the sequential one while instances of the same shape are being created";
        }
    }
    a.stop->store(1);
    return nullptr;
}
static void *c05_creator(void *p) {
    C05Mt &a = *(C05Mt *)p;
    while (!a.stop->load()) { int d = create(a.g); if (d <= 0) { a.err = "create failed"; break; } liberasurecode_instance_destroy(d); }
    return nullptr;
}
static Result run_c05_mt(const Case &c) {
    Result r;
    Config g = cfg_from(c);
    Instance in(g);
    if (!in.ok()) { r.fail("create refused"); return r; }
    Stripe s = encode(in.desc, g, expand_buffer(c, "data"));
    if (s.rc != 0) { r.fail("encode failed"); return r; }
    std::atomic<int> stop{0};
    int nd = (int)c.get("decoders", 2), nc = (int)c.get("creators", 2);
    std::vector<C05Mt> args(nd + nc);
    std::vector<pthread_t> th(nd + nc);
    for (int i = 0; i < nd + nc; i++) { args[i].g = g; args[i].desc = in.desc; args[i].s = &s; args[i].stop = &stop; args[i].rounds = (int)c.get("rounds", 300); args[i].seed = (uint64_t)c.get("seed") + 977 * i; }
    for (int i = 0; i < nd + nc; i++) pthread_create(&th[i], nullptr, i < nd ? c05_decoder : c05_creator, &args[i]);
    for (int i = 0; i < nd; i++) pthread_join(th[i], nullptr);
    stop.store(1);
    for (int i = nd; i < nd + nc; i++) pthread_join(th[i], nullptr);
    for (auto &a : args) if (!a.err.empty()) r.fail(a.err);
    r.nontrivial = true;
    return r;
}
static void sweep_c05_mt() {
    int shard = (int)opts().shard, ns = (int)opts().nshards;
    bool th = opts().tier == "thorough";
    for (int si = 0; si < ref::N_XOR_SHAPES; si++) {
        if ((si % ns) != shard) continue;
        const ref::XorShape &sh = ref::XOR_SHAPES[si];
        Case c; Config g; g.backend = ref::B_XOR; g.k = sh.k; g.m = sh.m; g.hd = sh.hd; g.ct = CT_NONE; cfg_to(c, g);
        c.set("data_cls", BUF_RANDOM); c.set("data_seed", 4000 + si); c.set("data_len", (int64_t)sh.k * (sh.hd == 4 ? 8192 : 20));
        c.set("decoders", 2); c.set("creators", 2); c.set("rounds", th ? 3000 : 400); c.set("seed", opts().seed * 131 + si);
        sweep_case(c, run_c05_mt);
    }
}

// C05 fault dimension: the aligned allocations the library makes DURING a decode / reconstruct (posix_memalign: the
// front end's fragment buffers and the flat-XOR decoder's own scratch block) fail one at a time. The executable's
// posix_memalign takes precedence over the sanitizer's weak one and forwards to it.
extern "C" { extern int verif_alloc_armed, verif_alloc_fail_at, verif_alloc_calls, verif_alloc_heap_first, verif_alloc_heap_calls; }      // harness/allocfault.c
#define g_pm_armed verif_alloc_armed
#define g_pm_fail_at verif_alloc_fail_at
#define g_pm_calls verif_alloc_calls
static Result run_c05_allocfail(const Case &c) {
    Result r;
    Config g = cfg_from(c);
    std::vector<uint8_t> data = expand_buffer(c, "data");
    Instance in(g);
    if (!in.ok()) { r.fail("create refused"); return r; }
    Stripe s = encode(in.desc, g, data);
    if (s.rc != 0) { r.fail("encode failed"); return r; }
    int n = g.n();
    std::vector<int> present = c.ints("present");
    uint64_t pm = maskof(present, n);
    std::vector<const std::vector<uint8_t> *> frs;
    for (int i : present) frs.push_back(&s.frags[i]);
    std::vector<int> lost;
    for (int i = 0; i < n; i++) if (!(pm >> i & 1)) lost.push_back(i);
    int which = (int)c.get("call", 0);      // 0 = decode, 1+j = reconstruct of the j-th lost index
    int dest = which > 0 && !lost.empty() ? lost[(which - 1) % lost.size()] : -1;
    // optionally some presented fragments carry payload damage and decode runs with force_metadata_checks (C20: the
    // verdict "the original bytes or an error" holds whatever fails inside)
    std::vector<std::vector<uint8_t>> dmgbuf;
    dmgbuf.reserve(present.size() + 1);
    int force = (int)c.get("force", 0);
    for (int d : c.ints("damaged")) for (size_t j = 0; j < present.size(); j++) if (present[j] == d && s.frags[d].size() > 80) {
        dmgbuf.push_back(s.frags[d]);
        dmgbuf.back()[80 + (size_t)(d * 7) % (s.frags[d].size() - 80)] ^= 0x10;
    }
    { size_t u = 0; for (int d : c.ints("damaged")) for (size_t j = 0; j < present.size(); j++) if (present[j] == d && s.frags[d].size() > 80) frs[j] = &dmgbuf[u++]; }
    auto call = [&](int fail_at, int &ncalls, std::string &what) -> bool {
        FragSet fs; fs.build(frs, c.ints("align"));
        g_pm_fail_at = fail_at >= 0 ? fail_at : -1; g_pm_calls = 0; verif_alloc_heap_first = fail_at == -2; verif_alloc_heap_calls = 0; g_pm_armed = 1;
        int rc; bool exact;
        if (dest < 0) { char *out = nullptr; uint64_t ol = 0; rc = liberasurecode_decode(in.desc, fs.ptrs, fs.count, s.fraglen, force, &out, &ol); g_pm_armed = 0;
            exact = rc == 0 && ol == data.size() && (ol == 0 || !memcmp(out, data.data(), ol)); if (rc == 0) liberasurecode_decode_cleanup(in.desc, out); }
        else { std::vector<uint8_t> o(s.fraglen, 0xA5); rc = liberasurecode_reconstruct_fragment(in.desc, fs.ptrs, fs.count, s.fraglen, dest, (char *)o.data()); g_pm_armed = 0; exact = rc == 0 && o == s.frags[dest]; }
        ncalls = g_pm_calls;
        if (!fs.unchanged()) { what = "an input fragment was modified"; return false; }
        if (rc > 0) { what = "returned the positive code " + std::to_string(rc); return false; }
        if (rc == 0 && !exact) { what = "returned 0 with wrong bytes"; return false; }
        if (fail_at == -1 && rc != 0 && c.ints("damaged").empty()) { what = "failed (rc=" + std::to_string(rc) + ") without any injected fault"; return false; }
        return true;
    };
    int N = 0, dummy = 0; std::string what;
    if (!call(-1, N, what)) { r.fail(std::string(dest < 0 ? "decode" : "reconstruct") + " " + what); return r; }
    for (int i = 0; i < N && r.ok; i++)
        if (!call(i, dummy, what)) r.fail(std::string(dest < 0 ? "decode" : "reconstruct") + " with aligned allocation number " + std::to_string(i) + " of " + std::to_string(N) + " failing: " + what);
    // "no memory at all": the first plain allocation of the call fails
    if (r.ok && !call(-2, dummy, what)) r.fail(std::string(dest < 0 ? "decode" : "reconstruct") + " with its first plain allocation failing: " + what);
    verif_alloc_heap_first = 0;
    if (r.ok && !call(-1, dummy, what)) r.fail(std::string("the call after the failed ones ") + what);
    stats().extra["sum_allocation_faults_injected"] += N;
    r.nontrivial = N > 0;
    r.cls("aligned_allocations_" + std::to_string(std::min(N, 9)));
    return r;
}
// every flat-XOR table: up to four erasure sets of hd-1 data fragments that need the two-parity path (hd = 4) or are
// plain (hd = 3), plus one mixed set; decode and the rebuild of every lost fragment
static void sweep_c05_allocfail() {
    int shard = (int)opts().shard, ns = (int)opts().nshards, counter = 0;
    for (int si = 0; si < ref::N_XOR_SHAPES; si++) {
        const ref::XorShape &sh = ref::XOR_SHAPES[si];
        Config g; g.backend = ref::B_XOR; g.k = sh.k; g.m = sh.m; g.hd = sh.hd; g.w = 0; g.ct = (si & 1) ? CT_CRC32 : CT_NONE;
        int n = g.n();
        std::vector<std::vector<int>> sets;
        if (sh.hd == 4) {
            for (int x = 0; x < g.k && sets.size() < 4; x++) for (int y = x + 1; y < g.k && sets.size() < 4; y++) for (int z = y + 1; z < g.k && sets.size() < 4; z++) {
                uint64_t T = (1ull << x) | (1ull << y) | (1ull << z);
                bool isolated = false;
                for (int j = 0; j < g.m; j++) if (__builtin_popcountll(ref::xor_parity_mask(&sh, j) & T) == 1) isolated = true;
                if (!isolated) sets.push_back({x, y, z});
            }
        }
        { std::vector<int> E; for (int i = 0; i < sh.hd - 1; i++) E.push_back((si + i * 2) % g.k); std::sort(E.begin(), E.end()); E.erase(std::unique(E.begin(), E.end()), E.end()); sets.push_back(E); }
        { std::vector<int> E = {si % g.k, g.k + si % g.m}; sets.push_back(E); }
        for (auto &E : sets) for (int callsel = 0; callsel <= (int)E.size(); callsel++) for (int al = 0; al < 2; al++) {
            if ((counter++ % ns) != shard) continue;
            Case c = base_case(g, (size_t)g.k * 48 + (counter % 3), 91000 + counter);
            present_from_erased(c, n, E);
            if (al) { std::vector<int> a(n - (int)E.size(), 0); a[counter % a.size()] = 4; c.setv("align", a); }
            c.set("call", callsel);
            sweep_case(c, run_c05_allocfail);
        }
    }
    stats().exhaustive = true;
}

// the same fault dimension for the other back ends (C02: a call either returns exact bytes or an error, whatever fails inside)
static void sweep_c02_allocfail() {
    int shard = (int)opts().shard, ns = (int)opts().nshards, counter = 0;
    std::vector<Config> cfgs;
    for (int be : {ref::B_RS, ref::B_ISA_V, ref::B_ISA_C}) {
        if (ref::is_isa(be) && !isa_available()) continue;
        for (auto km : std::vector<std::pair<int, int>>{{1, 1}, {2, 2}, {4, 2}, {3, 5}, {10, 4}, {20, 12}}) { Config g; g.backend = be; g.k = km.first; g.m = km.second; g.hd = g.m; g.w = 0; g.ct = (g.k & 1) ? CT_CRC32 : CT_NONE; cfgs.push_back(g); }
    }
    for (auto &g : cfgs) {
        int n = g.n();
        std::vector<std::vector<int>> sets;
        sets.push_back({});
        sets.push_back({0});
        { std::vector<int> E; for (int i = 0; i < g.m; i++) E.push_back(i < g.k ? i : g.k + (i - g.k)); std::sort(E.begin(), E.end()); E.erase(std::unique(E.begin(), E.end()), E.end()); sets.push_back(E); }
        { std::vector<int> E = {g.k}; sets.push_back(E); }
        for (auto &E : sets) for (int callsel = 0; callsel <= (int)std::min<size_t>(E.size(), 2); callsel++) for (int al = 0; al < 2; al++) {
            if ((counter++ % ns) != shard) continue;
            Case c = base_case(g, (size_t)g.k * 32 + (counter % 3), 93000 + counter);
            present_from_erased(c, n, E);
            if (al) { std::vector<int> a(n - (int)E.size(), 0); a[counter % a.size()] = 4; c.setv("align", a); }
            c.set("call", callsel);
            sweep_case(c, run_c05_allocfail);
        }
    }
    stats().exhaustive = true;
}

// C20 with allocation faults: decode with force_metadata_checks while some presented fragments carry payload damage
static void sweep_c20_allocfail() {
    int shard = (int)opts().shard, ns = (int)opts().nshards, counter = 0;
    std::vector<Config> cfgs;
    { Config g; g.backend = ref::B_RS; g.k = 4; g.m = 2; g.hd = 2; g.ct = CT_CRC32; cfgs.push_back(g); }
    { Config g; g.backend = ref::B_XOR; g.k = 10; g.m = 5; g.hd = 3; g.ct = CT_CRC32; cfgs.push_back(g); }
    { Config g; g.backend = ref::B_RS; g.k = 2; g.m = 3; g.hd = 3; g.ct = CT_CRC32; cfgs.push_back(g); }
    if (isa_available()) { Config g; g.backend = ref::B_ISA_C; g.k = 5; g.m = 3; g.hd = 3; g.w = 8; g.ct = CT_CRC32; cfgs.push_back(g); }
    for (auto &g : cfgs) for (int scen = 0; scen < 4; scen++) for (int al = 0; al < 2; al++) {
        if ((counter++ % ns) != shard) continue;
        int n = g.n();
        Case c = base_case(g, (size_t)g.k * 40 + 1, 97000 + counter);
        std::vector<int> E, D;
        switch (scen) {
        case 0: D = {1 % g.k}; break;                        // all present, a data fragment damaged
        case 1: E = {0}; D = {g.k}; break;                   // data 0 absent, first parity damaged
        case 2: E = {0}; D = {}; break;                      // plain rebuild, nothing damaged
        default: D = {0, n - 1}; break;                      // two damaged (rs 4+2: too few valid ones left -> error expected)
        }
        present_from_erased(c, n, E);
        if (al) { std::vector<int> a(n - (int)E.size(), 0); a[counter % a.size()] = 4; c.setv("align", a); }
        c.setv("damaged", D); c.set("force", 1); c.set("call", 0);
        sweep_case(c, run_c05_allocfail);
    }
    stats().exhaustive = true;
}

// C01 with other threads creating and destroying instances of the same shape meanwhile (round trip on an existing
// instance is a statement about that instance, whatever the rest of the process does with the registry)
static void sweep_c01_mt() {
    int shard = (int)opts().shard, ns = (int)opts().nshards, counter = 0;
    bool th = opts().tier == "thorough";
    std::vector<Config> cfgs;
    auto add = [&](int be, int k, int m, int hd) { Config g; g.backend = be; g.k = k; g.m = m; g.hd = hd; g.ct = (k & 1) ? CT_CRC32 : CT_NONE; cfgs.push_back(g); };
    add(ref::B_RS, 4, 2, 2); add(ref::B_RS, 10, 4, 4); add(ref::B_RS, 3, 5, 5); add(ref::B_RS, 2, 2, 2);
    add(ref::B_XOR, 10, 5, 3); add(ref::B_XOR, 12, 6, 4); add(ref::B_XOR, 6, 6, 4); add(ref::B_XOR, 5, 5, 3);
    if (isa_available()) { add(ref::B_ISA_C, 5, 3, 3); add(ref::B_ISA_C, 2, 4, 4); }
    for (auto &g : cfgs) {
        if ((counter++ % ns) != shard) continue;
        Case c; cfg_to(c, g);
        c.set("data_cls", BUF_RANDOM); c.set("data_seed", 4100 + counter); c.set("data_len", (int64_t)g.k * ((g.backend == ref::B_XOR && g.hd == 4) ? (128 << 10) : 20) + (counter % 3));
        bool big = g.backend == ref::B_XOR && g.hd == 4;       // long copies inside the decoder: concurrent decodes on ONE descriptor overlap for real
        c.set("decoders", big ? 3 : 2); c.set("creators", big ? 1 : 2); c.set("rounds", big ? (th ? 1500 : 250) : (th ? 3000 : 400)); c.set("seed", opts().seed * 137 + counter);
        sweep_case(c, run_c05_mt);
    }
}

// C15 across threads: encode / decode / rebuild results on a live instance are the same bytes whatever unrelated API
// activity (creates and destroys of other instances of the same back end) runs at the same time
static void sweep_c15_mt() {
    int shard = (int)opts().shard, ns = (int)opts().nshards, counter = 0;
    bool th = opts().tier == "thorough";
    std::vector<Config> cfgs;
    auto add = [&](int be, int k, int m, int hd) { Config g; g.backend = be; g.k = k; g.m = m; g.hd = hd; g.ct = (k & 1) ? CT_NONE : CT_CRC32; cfgs.push_back(g); };
    add(ref::B_RS, 4, 3, 3); add(ref::B_RS, 10, 4, 4); add(ref::B_RS, 2, 6, 6); add(ref::B_XOR, 10, 5, 3); add(ref::B_XOR, 12, 6, 4);
    if (isa_available()) add(ref::B_ISA_V, 6, 3, 3);
    for (auto &g : cfgs) {
        if ((counter++ % ns) != shard) continue;
        Case c; cfg_to(c, g);
        c.set("data_cls", BUF_RANDOM); c.set("data_seed", 4500 + counter); c.set("data_len", (int64_t)g.k * 512 + (counter % 3));
        c.set("decoders", 2); c.set("creators", 2); c.set("rounds", th ? 4000 : 600); c.set("seed", opts().seed * 149 + counter);
        sweep_case(c, run_c05_mt);
    }
}

// C19 with several threads decoding and rebuilding through ONE adapter instance (different erasure sets each), while
// another creates and destroys instances of the same shape: per-call scratch state of the adapters must be per call
static void sweep_c19_mt() {
    if (!isa_available()) return;
    int shard = (int)opts().shard, ns = (int)opts().nshards, counter = 0;
    bool th = opts().tier == "thorough";
    for (int be : {ref::B_ISA_V, ref::B_ISA_C}) for (auto km : std::vector<std::pair<int, int>>{{10, 4}, {4, 2}, {16, 6}, {6, 6}}) {
        if ((counter++ % ns) != shard) continue;
        Config g; g.backend = be; g.k = km.first; g.m = km.second; g.hd = g.m; g.w = (counter & 1) ? 8 : 0; g.ct = (counter & 2) ? CT_CRC32 : CT_NONE;
        Case c; cfg_to(c, g);
        c.set("data_cls", BUF_RANDOM); c.set("data_seed", 4300 + counter); c.set("data_len", (int64_t)g.k * 64 + (counter % 3));
        c.set("decoders", 4); c.set("creators", 1); c.set("rounds", th ? 6000 : 1500); c.set("seed", opts().seed * 139 + counter);
        sweep_case(c, run_c05_mt);
    }
}

// ============================================================================================ C19
#include <dlfcn.h>
struct IsalKnobs {
    void *h = nullptr; void (*fail_at)(int) = nullptr; int (*inv_calls)(void) = nullptr; void (*table_mode)(int) = nullptr;
    IsalKnobs() {
        h = dlopen("libisal.so.2", RTLD_LAZY | RTLD_GLOBAL);
        if (!h) return;
        fail_at = (void (*)(int))dlsym(h, "refisal_fail_invert_at");
        inv_calls = (int (*)(void))dlsym(h, "refisal_invert_calls");
        table_mode = (void (*)(int))dlsym(h, "refisal_set_table_mode");
    }
    bool ok() const { return h && fail_at && inv_calls && table_mode; }
};
static IsalKnobs &knobs() { static IsalKnobs k; return k; }
static Result run_c19(const Case &c) {
    Result r;
    if (!isa_available() || !knobs().ok()) { r.skipped = true; return r; }
    knobs().table_mode((int)c.get("table_mode", 0));
    r = run_codec(c);
    knobs().table_mode(0);
    Config g = cfg_from(c);
    uint64_t pm = maskof(c.ints("present"), g.n());
    bool erased_data = false;
    for (int i = 0; i < g.k; i++) if (!(pm >> i & 1)) erased_data = true;
    bool lost_dest = false;
    for (int d : c.ints("dests")) if (d >= 0 && d < g.n() && !(pm >> d & 1)) lost_dest = true;
    r.nontrivial = erased_data || lost_dest;
    if (c.get("table_mode", 0)) r.cls("alt_table_encoding_" + std::to_string(c.get("table_mode", 0)));
    return r;
}
static Case gen_c19() {
    Case c;
    Config g = gen_config(G_ISAV | G_ISAC);
    cfg_to(c, g);
    gen_buffer(c, "data", gen_length(g, std::min<size_t>(len_cap(), 1 << 15)));
    int n = g.n(), t = g.m;
    int e = weighted({5, 3, 1}) == 0 ? t : (int)pick(0, std::min(n, t + 1));
    std::vector<int> E = gen_erasures(g, e);
    gen_arrangement(c, g, E, true);
    c.set("force", coin(1, 4) ? 1 : 0);
    c.set("decode", 1);
    std::vector<int> dests;
    for (int x : E) if (coin()) dests.push_back(x);
    if (coin(1, 3)) dests.push_back((int)pick(0, n - 1));
    c.setv("dests", dests);
    c.set("table_mode", weighted({3, 1, 1}));
    c.set("pool", 0);       // the table-encoding knob must stay constant over an instance's life
    if (c.get("table_mode") == 0 && coin(1, 3)) c.set("pool", 1);
    return c;
}
// all erasure sets |E| <= m+1 for both adapters, n <= maxn, every lost destination + one present
static void sweep_c19() {
    if (!isa_available()) return;
    int maxn = (int)opts().geti("maxn", opts().tier == "thorough" ? 12 : 8);
    int shard = (int)opts().shard, ns = (int)opts().nshards, counter = 0;
    for (int be : {ref::B_ISA_V, ref::B_ISA_C})
        for (int k = 1; k < maxn; k++) for (int m = 1; k + m <= maxn; m++) {
            Config g; g.backend = be; g.k = k; g.m = m; g.hd = m; g.w = (int[]){0, 8, 16, 32, 24, 62}[(k + 2 * m) % 6]; g.ct = (m & 1) ? CT_CRC32 : CT_NONE;
            int n = k + m;
            for (int e = 0; e <= std::min(n, m + 1); e++)
                for_subsets(n, e, [&](const std::vector<int> &E) {
                    if ((counter++ % ns) != shard) return;
                    Case c = base_case(g, (size_t)k * 3 + (counter % 3), 31000 + (counter & 511));
                    present_from_erased(c, n, E);
                    c.set("force", 0); c.set("decode", 1);
                    std::vector<int> dests(E.begin(), E.end());
                    for (int d = 0; d < n; d++) if (std::find(E.begin(), E.end(), d) == E.end()) { dests.push_back(d); break; }
                    c.setv("dests", dests);
                    c.set("table_mode", (counter / 7) % 3);
                    sweep_case(c, run_c19);
                });
        }
    stats().exhaustive = true;
    stats().extra["isa_max_n"] = maxn;
}
// isa_l_rs_vand is not MDS for every shape: search (with the independent GF(2^8) model) for erasure
// sets within tolerance whose first k surviving rows are singular, and run those
static void sweep_c19_singular() {
    if (!isa_available()) return;
    int shard = (int)opts().shard, ns = (int)opts().nshards, counter = 0;
    int64_t trials = opts().geti("trials", opts().tier == "thorough" ? 3000 : 300);
    int found_total = 0;
    for (int k = 2; k <= 28; k++) for (int m = 4; k + m <= 32; m++) {
        if ((counter++ % ns) != shard) continue;
        Config g; g.backend = ref::B_ISA_V; g.k = k; g.m = m; g.hd = m; g.w = 8; g.ct = CT_NONE;
        int n = k + m, found = 0;
        uint64_t sd = 1234567 + k * 64 + m + (uint64_t)opts().seed * 7919;
        auto gen = ref::generator_matrix(g);
        for (int64_t t = 0; t < trials && found < 3; t++) {
            std::vector<int> all(n);
            for (int i = 0; i < n; i++) all[i] = i;
            int e = 2 + (int)(splitmix64(sd) % (m - 1));
            for (int i = 0; i < e; i++) std::swap(all[i], all[i + splitmix64(sd) % (n - i)]);
            std::vector<int> E(all.begin(), all.begin() + e);
            uint64_t pm = 0;
            for (int i = 0; i < n; i++) pm |= 1ull << i;
            for (int x : E) pm &= ~(1ull << x);
            std::vector<int> rows;
            for (int i = 0; i < n && (int)rows.size() < k; i++) if (pm >> i & 1) rows.push_back(i);
            if (ref::rank_of_rows(g, gen, rows) == k) continue;
            found++; found_total++;
            Case c = base_case(g, (size_t)k * 2 + 1, 500 + found);
            present_from_erased(c, n, E);
            c.set("force", 0); c.set("decode", 1);
            c.setv("dests", E);
            c.set("table_mode", 0);
            sweep_case(c, run_c19);
        }
    }
    stats().extra["sum_singular_first_k_sets_found"] = found_total;
}
// injected inversion failure: the public call must fail cleanly, the retry must be exact
static Result run_c19_inv(const Case &c) {
    Result r;
    if (!isa_available() || !knobs().ok()) { r.skipped = true; return r; }
    Config g = cfg_from(c);
    std::vector<uint8_t> data = expand_buffer(c, "data");
    Instance in(g);
    if (!in.ok()) { r.fail("create refused"); return r; }
    Stripe s = encode(in.desc, g, data);
    if (s.rc != 0) { r.fail("encode failed"); return r; }
    std::vector<int> present = c.ints("present");
    uint64_t pm = maskof(present, g.n());
    bool natural_ok = ref::isa_first_k_invertible(g, pm);
    std::vector<const std::vector<uint8_t> *> frs;
    for (int p : present) frs.push_back(&s.frags[p]);
    int dest = (int)c.get("dest");
    bool use_recon = c.get("use_recon") != 0;
    for (int pass = 0; pass < 2; pass++) {
        FragSet fs; fs.build(frs, {});
        if (pass == 0) knobs().fail_at(0); else knobs().fail_at(-1);
        int rc; bool exact = false;
        if (use_recon) { ReconOut o = reconstruct(in.desc, fs, s.fraglen, dest); rc = o.rc; exact = o.out == s.frags[dest]; }
        else { DecodeOut d = decode(in.desc, fs, s.fraglen, 0); rc = d.rc; exact = d.out == data; }
        int called = knobs().inv_calls();
        knobs().fail_at(-1);
        if (pass == 0) {
            if (called > 0) { r.cls("inversion_failure_injected"); if (rc >= 0) r.fail(std::string(use_recon ? "reconstruct" : "decode") + " returned " + std::to_string(rc) + " although the matrix inversion reported failure"); }
            else { r.cls("no_inversion_needed"); if (rc == 0 && !exact) r.fail("wrong bytes"); }
            r.nontrivial = called > 0;
        } else {
            if (natural_ok) { if (rc != 0 || !exact) r.fail(std::string("the call after a failed inversion did not succeed exactly (rc=") + std::to_string(rc) + ")"); }
            else if (rc == 0 && !exact) r.fail("wrong bytes");
        }
    }
    {   // the instance is destroyed before the leak check
        int d = in.desc; in.desc = -1; liberasurecode_instance_destroy(d);
    }
    if (__lsan_do_recoverable_leak_check() != 0 && (r.fatal = true)) r.fail("LeakSanitizer: memory still allocated after a failed inversion");
    return r;
}
static Case gen_c19_inv() {
    Case c;
    Config g = gen_config(G_ISAV | G_ISAC);
    cfg_to(c, g);
    gen_buffer(c, "data", gen_length(g, 2048));
    int n = g.n();
    int e = (int)pick(1, g.m);
    std::vector<int> E = gen_erasures(g, e);
    gen_arrangement(c, g, E, false);
    c.set("use_recon", coin() ? 1 : 0);
    c.set("dest", E.empty() ? 0 : E[pick(0, (int64_t)E.size() - 1)]);
    (void)n;
    return c;
}

#ifndef HARNESS_NO_MAIN
int main(int argc, char **argv) {
    Harness h;
    h.prop = "C01";
    h.mode("c01", [] { rc_property("C01 round trip", gen_c01, run_c01); }, run_c01);
    h.mode("c01_xor_sweep", [] { sweep_xor_within(run_c01, false); }, run_c01);
    h.mode("c01_rs_sweep", [] { sweep_rs_boundary(run_c01, ref::B_RS, false); }, run_c01);
    h.mode("c01_isa_sweep", [] { if (isa_available()) { sweep_rs_boundary(run_c01, ref::B_ISA_V, false); sweep_rs_boundary(run_c01, ref::B_ISA_C, false); } }, run_c01);
    h.mode("c01_large", [] { sweep_large(run_c01); }, run_c01);
    h.mode("c02_large", [] { sweep_large(run_c02); }, run_c02);
    h.mode("c03_large", [] { sweep_large(run_c03); }, run_c03);
    h.mode("c02", [] { rc_property("C02 exact or error", gen_c02, run_c02); }, run_c02);
    h.mode("c02_subsets", [] { bool th = opts().tier == "thorough"; sweep_all_subsets(run_c02, 12, th ? 10 : 8); }, run_c02);
    h.mode("c02_band", [] { sweep_xor_band(run_c02, opts().tier == "thorough" ? 3 : 1); }, run_c02);
    h.mode("c03", [] { rc_property("C03 reconstruct fidelity", gen_c03, run_c03); }, run_c03);
    h.mode("c03_xor_sweep", [] { sweep_xor_within(run_c03, opts().tier == "thorough"); }, run_c03);
    h.mode("c03_rs_sweep", [] { sweep_rs_boundary(run_c03, ref::B_RS, true); }, run_c03);
    h.mode("c05_decode_sweep", sweep_xor_c05, run_c05);
    h.mode("c05_large", [] { sweep_large(run_c05, true); }, run_c05);
    h.mode("c05_allocfail", sweep_c05_allocfail, run_c05_allocfail);
    h.mode("c02_allocfail", sweep_c02_allocfail, run_c05_allocfail);
    h.mode("c20_allocfail", sweep_c20_allocfail, run_c05_allocfail);
    h.mode("c05_mt", sweep_c05_mt, run_c05_mt);
    h.mode("c01_mt", sweep_c01_mt, run_c05_mt);
    h.mode("c19_mt", sweep_c19_mt, run_c05_mt);
    h.mode("c15_mt", sweep_c15_mt, run_c05_mt);
    h.mode("c19", [] { rc_property("C19 ISA-L adapters", gen_c19, run_c19); }, run_c19);
    h.mode("c19_sweep", sweep_c19, run_c19);
    h.mode("c19_singular", sweep_c19_singular, run_c19);
    h.mode("c19_inv", [] { rc_property("C19 inversion failure", gen_c19_inv, run_c19_inv); }, run_c19_inv);
    h.mode("c20", [] { rc_property("C20 forced checks", gen_c20, run_c20); }, run_c20);
    return harness_main(argc, argv, h);
}
#endif
