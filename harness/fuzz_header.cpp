// libFuzzer target for C09 / C11 / C12: bytes -> structured case -> the same run(case) oracles as h_header.
// On an oracle failure the case text is written to the failures directory (replayable with h_header) and
// the process traps so that libFuzzer keeps the artefact.
#define HARNESS_NO_MAIN
#include "h_header.cpp"
#include <fuzzer/FuzzedDataProvider.h>
#include <dlfcn.h>

static std::string g_prop = "C09";
extern "C" int LLVMFuzzerInitialize(int *argc, char ***argv) {
    (void)argc; (void)argv;
    // the library dlclose()s a plugin when its last instance dies; libFuzzer keeps pointers into the
    // coverage counters of every instrumented DSO, so pin the plugins for the life of the process
    for (const char *so : {"libXorcode.so.1", "liberasurecode_rs_vand.so.1", "libnullcode.so.1", "libisal.so.2"}) dlopen(so, RTLD_NOW | RTLD_GLOBAL);
    if (const char *p = getenv("VERIF_FUZZ_PROP")) g_prop = p;
    Stats &s = stats();
    s.prop = g_prop;
    if (const char *fd = getenv("VERIF_FAILDIR")) s.faildir = fd;
    unsetenv("LIBERASURECODE_WRITE_LEGACY_CRC");
    return 0;
}
static Config fdp_config(FuzzedDataProvider &f, bool allow_null) {
    Config g;
    static const int bes[] = {ref::B_RS, ref::B_XOR, ref::B_ISA_C, ref::B_ISA_V, ref::B_NULL};
    g.backend = bes[f.ConsumeIntegralInRange<int>(0, allow_null ? 4 : 3)];
    if (g.backend == ref::B_XOR) { const ref::XorShape &s = ref::XOR_SHAPES[f.ConsumeIntegralInRange<int>(0, ref::N_XOR_SHAPES - 1)]; g.k = s.k; g.m = s.m; g.hd = s.hd; }
    else { g.k = f.ConsumeIntegralInRange<int>(1, 12); g.m = f.ConsumeIntegralInRange<int>(1, 6); g.hd = g.m; }
    g.ct = f.ConsumeBool() ? CT_CRC32 : CT_NONE;
    g.w = 0;
    return g;
}
static void fdp_small_base(FuzzedDataProvider &f, Case &c, bool allow_null = true) {
    cfg_to(c, fdp_config(f, allow_null));
    c.set("data_cls", f.ConsumeIntegralInRange<int>(0, 6)); c.set("data_seed", f.ConsumeIntegral<uint16_t>()); c.set("data_len", f.ConsumeIntegralInRange<int>(0, 300));
    c.set("frag", f.ConsumeIntegralInRange<int>(0, 31));
}
extern "C" int LLVMFuzzerTestOneInput(const uint8_t *data, size_t size) {
    FuzzedDataProvider f(data, size);
    Case c; Result r; std::string mode;
    unsetenv("LIBERASURECODE_WRITE_LEGACY_CRC");        // nothing may leak between iterations
    int which = g_prop == "C11" ? 1 : g_prop == "C12" ? 2 : g_prop == "C10" ? 3 : 0;
    if (which == 0) {
        mode = "c09";
        fdp_small_base(f, c);
        c.set("legacy", f.ConsumeBool());
        std::vector<int64_t> ops;
        int n = f.ConsumeIntegralInRange<int>(1, 4);
        for (int i = 0; i < n; i++) { ops.push_back(f.ConsumeIntegralInRange<int>(1, 6)); ops.push_back(f.ConsumeIntegral<uint32_t>() & 0xfffff); ops.push_back(f.ConsumeIntegral<uint32_t>() & 0xfffff); }
        c.setl("ops", ops);
        c.set("reseal", f.ConsumeIntegralInRange<int>(0, 6)); c.set("reseal_arg", f.ConsumeIntegralInRange<int>(0, 1019));
        r = run_c09(c);
    } else if (which == 1) {
        mode = "c11";
        fdp_small_base(f, c);
        c.set("asym", f.ConsumeBool()); c.set("asym_seed", f.ConsumeIntegral<uint32_t>()); c.set("corrupt", f.ConsumeBool()); c.set("carg", f.ConsumeIntegral<uint32_t>() & 0xffffff);
        r = run_c11(c);
    } else if (which == 2) {
        mode = "c12";
        fdp_small_base(f, c);
        bool same = f.ConsumeBool();
        c.set("same_instance", same);
        Config gi = same ? cfg_from(c) : fdp_config(f, true);
        cfg_to(c, gi, "i_");
        c.set("edit", f.ConsumeIntegralInRange<int>(0, 8)); c.set("earg", (int64_t)(f.ConsumeIntegral<uint32_t>() & 0x7fffffff));
        r = run_c12(c);
    } else {
        mode = "c10";
        fdp_small_base(f, c, false);
        c.set("ct", CT_CRC32);
        c.set("wenv", f.ConsumeIntegralInRange<int>(0, 4)); c.set("renv", f.ConsumeIntegralInRange<int>(0, 4)); c.set("via_reconstruct", f.ConsumeBool());
        c.set("ckind", f.ConsumeIntegralInRange<int>(0, 5)); c.set("carg", f.ConsumeIntegral<uint32_t>() & 0xffffff); c.set("cval", f.ConsumeIntegral<uint32_t>() & 0xffffff);
        r = run_c10(c);
    }
    Stats &s = stats();
    s.evaluations++;
    if (!r.ok) {
        s.mode = mode;
        s.save_failure(c.text(), r.msg);
        __builtin_trap();
    }
    return 0;
}
