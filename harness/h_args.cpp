// C13: invalid arguments and configurations are refused with an error, never a crash;
//      accepted configurations survive a full cycle
#include "lib.hpp"
#include <climits>
#include <pthread.h>
using namespace fw;
using namespace lib;

extern "C" size_t __sanitizer_get_current_allocated_bytes(void);
// cheap pre-filter: only when the allocator's live byte count changed across the library calls is the
// (slow, stop-the-world) LeakSanitizer check run; LSan alone decides
static bool leak_free_if_changed(Result &r, size_t before, const char *what) {
    if (__sanitizer_get_current_allocated_bytes() == before) return true;
    if (__lsan_do_recoverable_leak_check() != 0) { r.fatal = true; r.fail(std::string("LeakSanitizer: memory still allocated after ") + what); return false; }
    return true;
}
static long g_lsan_calls = 0;
static bool leak_free(Result &r, const char *what) {
    g_lsan_calls++;
    if (__lsan_do_recoverable_leak_check() != 0) { r.fatal = true; r.fail(std::string("LeakSanitizer: memory still allocated after ") + what); return false; }
    return true;
}

// ------------------------------------------------------------------------------------ argument grid
// functions
enum { F_AVAILABLE, F_CREATE, F_DESTROY, F_ENCODE, F_ENCODE_CLEANUP, F_DECODE, F_DECODE_CLEANUP, F_RECONSTRUCT, F_NEEDED,
       F_METADATA, F_IS_INVALID, F_VERIFY_STRIPE, F_ALIGNED, F_MINSIZE, F_FRAGSIZE, F_VERSION, F_COUNT };
static const char *FN[] = {"backend_available", "instance_create", "instance_destroy", "encode", "encode_cleanup", "decode", "decode_cleanup",
                           "reconstruct_fragment", "fragments_needed", "get_fragment_metadata", "is_invalid_fragment", "verify_stripe_metadata",
                           "get_aligned_data_size", "get_minimum_encode_size", "get_fragment_size", "get_version"};
// argument kinds and their alternatives (0 is always the valid choice)
enum { A_DESC, A_PTR, A_NUMFRAGS, A_FRAGLEN, A_DEST, A_BEID, A_VNUM, A_SIZE };
static const int ALT[] = {8, 2, 5, 4, 5, 5, 4, 1};
struct FnSpec { int nargs; int kinds[7]; };
static const FnSpec SPEC[F_COUNT] = {
    /* available */ {1, {A_BEID}},
    /* create */ {2, {A_BEID, A_PTR}},
    /* destroy */ {1, {A_DESC}},
    /* encode */ {6, {A_DESC, A_PTR, A_SIZE, A_PTR, A_PTR, A_PTR}},
    /* encode_cleanup */ {3, {A_DESC, A_PTR, A_PTR}},
    /* decode */ {7, {A_DESC, A_PTR, A_NUMFRAGS, A_FRAGLEN, A_SIZE, A_PTR, A_PTR}},
    /* decode_cleanup */ {2, {A_DESC, A_PTR}},
    /* reconstruct */ {6, {A_DESC, A_PTR, A_NUMFRAGS, A_FRAGLEN, A_DEST, A_PTR}},
    /* needed */ {4, {A_DESC, A_PTR, A_PTR, A_PTR}},
    /* metadata */ {2, {A_PTR, A_PTR}},
    /* is_invalid */ {2, {A_DESC, A_PTR}},
    /* verify_stripe */ {3, {A_DESC, A_PTR, A_VNUM}},
    /* aligned */ {2, {A_DESC, A_SIZE}},
    /* minsize */ {1, {A_DESC}},
    /* fragsize */ {2, {A_DESC, A_SIZE}},
    /* version */ {0, {}},
};

static int g_xdead = -1;      // descriptor this thread looked up and ANOTHER thread then destroyed
static int desc_alt(int choice, int valid, int dead) {
    switch (choice) { case 0: return valid; case 1: return dead; case 2: return valid + 100003; case 3: return -1; case 4: return 0; case 5: return INT_MAX; case 6: return INT_MIN; default: return g_xdead; }
}
static void *destroy_on_thread(void *p) { int *d = (int *)p; d[1] = liberasurecode_instance_destroy(d[0]); return nullptr; }

static Result run_grid(const Case &c) {
    Result r;
    int fn = (int)c.get("fn");
    std::vector<int> ch = c.ints("choice");
    ch.resize(7, 0);
    Config g = cfg_from(c);
    if (ref::is_isa(g.backend) && !isa_available()) { r.skipped = true; return r; }
    // world: a live instance with a stripe, and a destroyed descriptor
    Instance in(g);
    if (!in.ok()) { r.fail("create refused"); return r; }
    int dead;
    { Instance tmp(g); dead = tmp.desc; }
    {   // looked up here, destroyed by a helper thread (joined): must be dead for this thread as well
        Instance tmp(g);
        int dd[2] = {tmp.desc, 777};
        if (tmp.ok() && liberasurecode_get_minimum_encode_size(tmp.desc) > 0) {
            pthread_t th;
            if (pthread_create(&th, nullptr, destroy_on_thread, dd) == 0) { pthread_join(th, nullptr); if (dd[1] == 0) tmp.desc = -1; }
        }
        g_xdead = dd[0];
        if (tmp.desc != -1) g_xdead = dead;      // could not set the scene: fall back to the ordinary dead descriptor
    }
    std::vector<uint8_t> data((size_t)g.k * ref::word_bytes(g) * 2 + 3, 0x5c);
    for (size_t i = 0; i < data.size(); i++) data[i] = (uint8_t)(i * 7 + 1);
    Stripe s = encode(in.desc, g, data);
    if (s.rc != 0) { r.fail("encode failed"); return r; }
    int n = g.n();
    bool all_valid = true;
    int nbad = 0, first_bad = -1;
    for (int i = 0; i < SPEC[fn].nargs; i++) if (ch[i]) { all_valid = false; nbad++; if (first_bad < 0) first_bad = i; }
    int rc = 0;
    enum { WANT_NEG, WANT_ONE, WANT_ZERO, WANT_ANY, WANT_OK } want = all_valid ? WANT_OK : WANT_NEG;
    std::string extra;
    auto D = [&](int i) { return desc_alt(ch[i], in.desc, dead); };
    std::vector<const std::vector<uint8_t> *> frs;
    for (int i = 1; i < n; i++) frs.push_back(&s.frags[i]);     // fragment 0 missing (tolerance >= 1 for all real codes)
    auto numfrags = [&](int choice, int valid) { switch (choice) { case 0: return valid; case 1: return INT_MIN; case 2: return -1; case 3: return 0; default: return g.k - 1; } };
    auto fraglen = [&](int choice) -> uint64_t { switch (choice) { case 0: return s.fraglen; case 1: return 0; case 2: return 1; default: return 79; } };
    switch (fn) {
    case F_AVAILABLE: {
        static const unsigned ids[] = {0, 9, 100, (unsigned)INT_MAX, 0xffffffffu};
        unsigned id = ch[0] ? ids[ch[0]] : (unsigned)g.backend;
        rc = liberasurecode_backend_available(id);
        if (all_valid) { if (rc != 1) r.fail("backend_available(valid)=" + std::to_string(rc)); rc = 0; }
        else want = WANT_ZERO;
        break;
    }
    case F_CREATE: {
        static const unsigned ids[] = {0, 9, 100, (unsigned)INT_MAX, 0xffffffffu};
        struct ec_args a; memset(&a, 0, sizeof a); a.k = g.k; a.m = g.m; a.hd = g.hd; a.w = g.w; a.ct = g.ct;
        rc = liberasurecode_instance_create(ch[0] ? ids[ch[0]] : (unsigned)g.backend, ch[1] ? nullptr : &a);
        if (rc > 0) { if (!all_valid) extra = "created an instance"; liberasurecode_instance_destroy(rc); if (all_valid) rc = 0; }
        break;
    }
    case F_DESTROY: {
        Instance victim(g);
        int d = desc_alt(ch[0], victim.desc, dead);
        rc = liberasurecode_instance_destroy(d);
        if (ch[0] == 0) victim.desc = -1;
        break;
    }
    case F_ENCODE: {
        ExactBuf inb(data);
        char **ed = nullptr, **ep = nullptr; uint64_t fl = 0;
        rc = liberasurecode_encode(D(0), ch[1] ? nullptr : inb.p, data.size(), ch[3] ? nullptr : &ed, ch[4] ? nullptr : &ep, ch[5] ? nullptr : &fl);
        if (rc == 0) { if (liberasurecode_encode_cleanup(in.desc, ed, ep) != 0) r.fail("cleanup after encode failed"); }
        else if (ed || ep) extra = "output pointers set although encode failed";
        break;
    }
    case F_ENCODE_CLEANUP: {
        ExactBuf inb(data);
        char **ed = nullptr, **ep = nullptr; uint64_t fl = 0;
        if (liberasurecode_encode(in.desc, inb.p, data.size(), &ed, &ep, &fl) != 0) { r.fail("setup encode failed"); return r; }
        rc = liberasurecode_encode_cleanup(D(0), ch[1] ? nullptr : ed, ch[2] ? nullptr : ep);
        if (ch[0] == 0 && (ch[1] || ch[2])) want = WANT_ANY;      // NULL arrays: nothing to free (the suite pins rc 0)
        // release what the refused / partial call left with us
        if (ch[0] != 0) liberasurecode_encode_cleanup(in.desc, ed, ep);
        else { if (ch[1]) liberasurecode_encode_cleanup(in.desc, ed, nullptr); if (ch[2]) liberasurecode_encode_cleanup(in.desc, nullptr, ep); }
        break;
    }
    case F_DECODE: {
        FragSet fs; fs.build(frs, {});
        char *out = nullptr; uint64_t ol = 0;
        rc = liberasurecode_decode(D(0), ch[1] ? nullptr : fs.ptrs, numfrags(ch[2], fs.count), fraglen(ch[3]), 0, ch[5] ? nullptr : &out, ch[6] ? nullptr : &ol);
        if (rc == 0) {
            if (all_valid && (ol != data.size() || memcmp(out, data.data(), ol))) r.fail("valid decode returned wrong data");
            liberasurecode_decode_cleanup(in.desc, out);
        } else if (out) extra = "out_data set although decode failed";
        break;
    }
    case F_DECODE_CLEANUP: {
        FragSet fs; fs.build(frs, {});
        char *out = nullptr; uint64_t ol = 0;
        if (liberasurecode_decode(in.desc, fs.ptrs, fs.count, s.fraglen, 0, &out, &ol) != 0) { r.fail("setup decode failed"); return r; }
        rc = liberasurecode_decode_cleanup(D(0), ch[1] ? nullptr : out);
        if (ch[0] == 0 && ch[1]) want = WANT_ANY;
        if (ch[0] != 0 || ch[1]) liberasurecode_decode_cleanup(in.desc, out);
        break;
    }
    case F_RECONSTRUCT: {
        FragSet fs; fs.build(frs, {});
        static const int dests[] = {0, -1, 0, INT_MAX, INT_MIN};
        int dest = ch[4] == 2 ? n : dests[ch[4]];
        size_t olen = (size_t)s.fraglen;
        char *out = (char *)malloc(olen);
        memset(out, 0xA5, olen);
        rc = liberasurecode_reconstruct_fragment(D(0), ch[1] ? nullptr : fs.ptrs, numfrags(ch[2], fs.count), fraglen(ch[3]), dest, ch[5] ? nullptr : out);
        if (rc == 0 && all_valid && memcmp(out, s.frags[0].data(), olen)) r.fail("valid reconstruct returned wrong fragment");
        free(out);
        break;
    }
    case F_NEEDED: {
        int R[2] = {0, -1}, X[1] = {-1};
        std::vector<int> N(n + 1, -1);
        rc = liberasurecode_fragments_needed(D(0), ch[1] ? nullptr : R, ch[2] ? nullptr : X, ch[3] ? nullptr : N.data());
        break;
    }
    case F_METADATA: {
        ExactBuf fb(s.frags[1]);
        fragment_metadata_t md;
        rc = liberasurecode_get_fragment_metadata(ch[0] ? nullptr : fb.p, ch[1] ? nullptr : &md);
        break;
    }
    case F_IS_INVALID: {
        ExactBuf fb(s.frags[1]);
        rc = is_invalid_fragment(D(0), ch[1] ? nullptr : fb.p);
        if (!all_valid) want = WANT_ONE;
        break;
    }
    case F_VERIFY_STRIPE: {
        FragSet fs; fs.build(frs, {});
        static const int nums[] = {0, 0, -1, INT_MIN};
        rc = liberasurecode_verify_stripe_metadata(D(0), ch[1] ? nullptr : fs.ptrs, ch[2] ? nums[ch[2]] : fs.count);
        break;
    }
    case F_ALIGNED: rc = liberasurecode_get_aligned_data_size(D(0), 1000); if (all_valid && rc > 0) rc = 0; break;
    case F_MINSIZE: rc = liberasurecode_get_minimum_encode_size(D(0)); if (all_valid && rc > 0) rc = 0; break;
    case F_FRAGSIZE: rc = liberasurecode_get_fragment_size(D(0), 1000); if (all_valid && rc > 0) rc = 0; break;
    case F_VERSION: rc = liberasurecode_get_version() >= ref::V120 ? 0 : -1; break;
    }
    std::string what = std::string(FN[fn]) + " with choices ";
    for (int i = 0; i < SPEC[fn].nargs; i++) what += std::to_string(ch[i]) + (i + 1 < SPEC[fn].nargs ? "," : "");
    switch (want) {
    case WANT_NEG: if (rc >= 0) r.fail(what + " returned " + std::to_string(rc) + ", expected a negative error code" + (extra.empty() ? "" : " (" + extra + ")")); break;
    case WANT_ONE: if (rc == 0) r.fail(what + " returned 0 (valid), expected the documented failure report (non-zero)"); break;
    case WANT_ZERO: if (rc > 0) r.fail(what + " returned " + std::to_string(rc) + " (available) for an invalid back-end id"); break;
    case WANT_OK: if (rc != 0) r.fail(what + " (all arguments valid) returned " + std::to_string(rc)); break;
    case WANT_ANY: break;
    }
    if (!extra.empty() && want == WANT_NEG && rc < 0 && extra.find("output pointers") == std::string::npos && extra.find("out_data") == std::string::npos) r.fail(what + ": " + extra);
    leak_free(r, what.c_str());
    r.cls(FN[fn]);
    r.nontrivial = !all_valid && (nbad >= 2 || first_bad > 0);
    if (nbad >= 2) r.cls("combined_bad_args");
    return r;
}
static void emit_grid(int fn, const std::vector<int> &choice, const Config &g, int &counter) {
    int shard = (int)opts().shard, ns = (int)opts().nshards;
    if ((counter++ % ns) != shard) return;
    Case c; cfg_to(c, g); c.set("fn", fn); c.setv("choice", choice);
    sweep_case(c, run_grid);
}
static void sweep_grid() {
    int counter = 0;
    std::vector<Config> cfgs;
    { Config g; g.backend = ref::B_RS; g.k = 4; g.m = 2; g.hd = 2; g.ct = CT_CRC32; cfgs.push_back(g); }
    { Config g; g.backend = ref::B_XOR; g.k = 5; g.m = 5; g.hd = 3; g.ct = CT_NONE; cfgs.push_back(g); }
    { Config g; g.backend = ref::B_ISA_C; g.k = 3; g.m = 3; g.hd = 3; g.ct = CT_CRC32; cfgs.push_back(g); }
    { Config g; g.backend = ref::B_NULL; g.k = 3; g.m = 2; g.hd = 2; g.ct = CT_NONE; cfgs.push_back(g); }
    for (auto &g : cfgs)
        for (int fn = 0; fn < F_COUNT; fn++) {
            if (g.backend == ref::B_NULL && (fn == F_DECODE || fn == F_RECONSTRUCT || fn == F_DECODE_CLEANUP)) continue;   // null code cannot rebuild
            const FnSpec &sp = SPEC[fn];
            std::vector<int> ch(sp.nargs, 0);
            emit_grid(fn, ch, g, counter);                        // all valid
            for (int i = 0; i < sp.nargs; i++)                    // all single substitutions
                for (int a = 1; a < ALT[sp.kinds[i]]; a++) { ch.assign(sp.nargs, 0); ch[i] = a; emit_grid(fn, ch, g, counter); }
            std::vector<int> ptrs;                                // all NULL combinations (>= 2 NULLs)
            for (int i = 0; i < sp.nargs; i++) if (sp.kinds[i] == A_PTR) ptrs.push_back(i);
            for (uint32_t mask = 1; mask < (1u << ptrs.size()); mask++) {
                if (__builtin_popcount(mask) < 2) continue;
                ch.assign(sp.nargs, 0);
                for (size_t j = 0; j < ptrs.size(); j++) if (mask >> j & 1) ch[ptrs[j]] = 1;
                emit_grid(fn, ch, g, counter);
                // ... and with a dead descriptor on top
                if (sp.kinds[0] == A_DESC) { ch[0] = 1; emit_grid(fn, ch, g, counter); }
            }
            // pairs: bad descriptor x each other bad value
            if (sp.nargs >= 2 && sp.kinds[0] == A_DESC)
                for (int i = 1; i < sp.nargs; i++) for (int a = 1; a < ALT[sp.kinds[i]]; a++) { ch.assign(sp.nargs, 0); ch[0] = 2; ch[i] = a; emit_grid(fn, ch, g, counter); }
        }
    stats().exhaustive = true;
    stats().extra["entry_points"] = F_COUNT;
}
static Case gen_grid() {
    Case c;
    Config g = gen_config(G_RS | G_XOR | G_ISAC);
    cfg_to(c, g);
    int fn = (int)pick(0, F_COUNT - 1);
    c.set("fn", fn);
    std::vector<int> ch(SPEC[fn].nargs, 0);
    int nb = weighted({1, 4, 3, 2});
    for (int j = 0; j < nb && SPEC[fn].nargs; j++) { int i = (int)pick(0, SPEC[fn].nargs - 1); ch[i] = (int)pick(0, ALT[SPEC[fn].kinds[i]] - 1); }
    c.setv("choice", ch);
    return c;
}

// ------------------------------------------------------------------------------------ configuration box
// witness: a long-lived ordinary instance of the same back end that stays alive across the life of the instance under
// test ("accepted instances can be used without memory faults" holds for the ones already there, too); present in
// part of the cases only, so that first-instance set-up and last-instance tear-down of a back end stay covered
struct Witness { int desc = -1; Config g; std::vector<uint8_t> data; Stripe s; };
static Witness *g_wit[16];
static Config witness_shape(int be) {
    Config g; g.backend = be; g.ct = CT_CRC32; g.w = 0;
    if (be == ref::B_XOR) { g.k = 10; g.m = 5; g.hd = 3; } else { g.k = 4; g.m = 3; g.hd = 3; }
    return g;
}
static void witness_set(int be, bool want, Result &r) {
    if (be < 0 || be >= 16) return;
    bool real = be == ref::B_RS || be == ref::B_XOR || (ref::is_isa(be) && isa_available());
    if (!real) return;
    if (!want) { if (g_wit[be]) { liberasurecode_instance_destroy(g_wit[be]->desc); delete g_wit[be]; g_wit[be] = nullptr; } return; }
    if (g_wit[be]) return;
    Witness *w = new Witness; w->g = witness_shape(be);
    w->desc = create(w->g);
    if (w->desc <= 0) { r.fail("witness create failed"); delete w; return; }
    w->data.resize(w->g.k * 24 + 3);
    for (size_t i = 0; i < w->data.size(); i++) w->data[i] = (uint8_t)(i * 29 + 7);
    w->s = encode(w->desc, w->g, w->data);
    if (w->s.rc != 0) { r.fail("witness encode failed"); liberasurecode_instance_destroy(w->desc); delete w; return; }
    g_wit[be] = w;
}
static void witness_check(int be, Result &r, const char *when) {
    if (be < 0 || be >= 16 || !g_wit[be]) return;
    Witness &w = *g_wit[be];
    Stripe s = encode(w.desc, w.g, w.data);
    if (s.rc != 0 || s.frags != w.s.frags) { r.fail(std::string("the long-lived instance of the same back end encodes differently ") + when); return; }
    std::vector<const std::vector<uint8_t> *> frs;
    for (int i = 2; i < w.g.n(); i++) frs.push_back(&w.s.frags[i]);          // data fragments 0 and 1 lost
    FragSet fs; fs.build(frs, {});
    DecodeOut o = decode(w.desc, fs, w.s.fraglen, 0);
    if (o.rc != 0 || o.out != w.data) r.fail(std::string("the long-lived instance of the same back end no longer decodes ") + when + " (rc=" + std::to_string(o.rc) + ")");
}
static Result run_box(const Case &c) {
    Result r;
    Config g = cfg_from(c);
    witness_set(g.backend, c.get("witness", 0) != 0, r);
    if (!r.ok) return r;
    if (c.get("witness", 0) && g.backend >= 0 && g.backend < 16 && g_wit[g.backend]) r.cls("with_live_sibling");
    bool supported_shape = g.k >= 1 && g.m >= 0 && g.k + g.m <= 32 && (g.backend != ref::B_XOR || ref::xor_shape(g.k, g.m, g.hd));
    struct ec_args a; memset(&a, 0, sizeof a); a.k = g.k; a.m = g.m; a.hd = g.hd; a.w = g.w; a.ct = g.ct;
    size_t bytes_before = __sanitizer_get_current_allocated_bytes();
    int d = liberasurecode_instance_create((unsigned)g.backend, &a);
    size_t bytes_after_create = __sanitizer_get_current_allocated_bytes();
    struct Tag { Result &r; bool acc, sup; ~Tag() { r.cls(acc ? "accepted" : "refused"); r.cls(sup ? "shape_supported" : "shape_unsupported"); } } tag{r, d > 0, supported_shape};   // classes are added on return (no allocation inside the measured region)
    bool near_boundary = g.k <= 1 || g.m <= 1 || (g.k + g.m >= 31 && g.k + g.m <= 33) || g.w == 4 || g.w == 7 || g.w == 64 || g.w == -1;
    r.nontrivial = near_boundary;
    if (d == 0) { r.fail("create returned 0"); return r; }
    if (!supported_shape) {
        if (d > 0) { r.fail("create accepted an unsupported shape (backend " + std::to_string(g.backend) + " k=" + std::to_string(g.k) + " m=" + std::to_string(g.m) + " hd=" + std::to_string(g.hd) + " w=" + std::to_string(g.w) + ")"); liberasurecode_instance_destroy(d); leak_free(r, "create of an unsupported shape + destroy"); }
        else if (bytes_after_create != bytes_before) leak_free(r, "refused create");
        witness_check(g.backend, r, "after a refused create");
        return r;
    }
    if (d < 0) { if (bytes_after_create != bytes_before) leak_free(r, "refused create"); witness_check(g.backend, r, "after a refused create"); return r; }
    // accepted: full cycle must work without faults
    bool real = g.backend == ref::B_RS || g.backend == ref::B_XOR || ref::is_isa(g.backend);
    int n = g.n();
    int al1 = liberasurecode_get_aligned_data_size(d, 1), mn = liberasurecode_get_minimum_encode_size(d), fs = liberasurecode_get_fragment_size(d, 1);
    if (al1 <= 0 || mn <= 0 || fs <= 0) r.fail("size queries on an accepted instance returned " + std::to_string(al1) + "," + std::to_string(mn) + "," + std::to_string(fs));
    const size_t lens[3] = {0, 1, (size_t)(mn > 0 ? mn + 1 : 5)};       // (no heap allocation may outlive the cycle: the byte-count pre-filter below compares against the count before create)
    for (size_t len : lens) {
        std::vector<uint8_t> data(len);
        for (size_t i = 0; i < len; i++) data[i] = (uint8_t)(i * 13 + 5);
        Stripe s = encode(d, g, data);
        if (s.rc != 0) { r.fail("encode(len=" + std::to_string(len) + ") failed rc=" + std::to_string(s.rc) + " on an accepted instance"); break; }
        std::vector<const std::vector<uint8_t> *> frs;
        for (int i = 0; i < n; i++) frs.push_back(&s.frags[i]);
        { FragSet fset; fset.build(frs, {}); DecodeOut o = decode(d, fset, s.fraglen, 0);
          if (o.rc != 0 || o.out != data) r.fail("decode of the complete stripe failed or returned wrong data (rc=" + std::to_string(o.rc) + ")"); }
        if (real && len == lens[2]) {
            // the documented corner case "destination is among the supplied fragments": every index, complete list
            std::vector<const std::vector<uint8_t> *> all;
            for (int i = 0; i < n; i++) all.push_back(&s.frags[i]);
            for (int dest = 0; dest < n; dest++) {
                FragSet fset; fset.build(all, {});
                ReconOut ro = reconstruct(d, fset, s.fraglen, dest);
                if (ro.rc != 0 || ro.out != s.frags[dest]) { r.fail("reconstruct of supplied fragment " + std::to_string(dest) + " failed or returned other bytes (rc=" + std::to_string(ro.rc) + ")"); break; }
            }
        }
        if (real && len == lens[1]) {
            // fragment lists longer than k+m (and longer than 32 entries) are legal: duplicates are allowed
            for (int total : {n + 1, 33, 70}) for (int force = 0; force < 2; force++) {
                std::vector<const std::vector<uint8_t> *> lf;
                for (int i = 0; i < total; i++) lf.push_back(&s.frags[(i * 7 + 1) % n]);
                for (int i = 0; i < n; i++) lf[(size_t)(total - 1 - i) % lf.size()] = &s.frags[i];      // every index present, unique copies late in the list
                FragSet fset; fset.build(lf, {});
                DecodeOut o = decode(d, fset, s.fraglen, force);
                if (o.rc != 0 || o.out != data) r.fail("decode of a " + std::to_string(total) + "-entry list with duplicates (force=" + std::to_string(force) + ") failed or returned wrong data (rc=" + std::to_string(o.rc) + ")");
            }
        }
        if (real && g.m >= 1) {
            int t = g.backend == ref::B_XOR ? g.hd - 1 : g.m;
            int e = std::min(t, n - g.k);
            frs.clear();
            uint64_t pm = 0;
            for (int i = e; i < n; i++) { frs.push_back(&s.frags[i]); pm |= 1ull << i; }     // first e fragments lost
            Config gg = g; if (ref::is_isa(g.backend) && g.w > 0) gg.w = 8;
            bool demand = !(g.backend == ref::B_ISA_V && !ref::isa_first_k_invertible(gg, pm));
            FragSet fset; fset.build(frs, {});
            DecodeOut o = decode(d, fset, s.fraglen, 0);
            if (o.rc == 0) { if (o.out != data) r.fail("decode with " + std::to_string(e) + " erasures returned wrong data"); }
            else if (demand) r.fail("decode with " + std::to_string(e) + " erasures (within tolerance) failed rc=" + std::to_string(o.rc));
            if (len == lens[2]) {
                // valid caller buffers need not be 16-byte aligned: the same decode with every survivor at 8 mod 16, and
                // at an odd address
                std::vector<uint8_t> data2((size_t)g.k * 64 + 3);      // payloads long enough for the vector kernels
                for (size_t i = 0; i < data2.size(); i++) data2[i] = (uint8_t)(i * 37 + 11);
                Stripe s2 = encode(d, g, data2);
                if (s2.rc != 0) r.fail("encode failed rc=" + std::to_string(s2.rc));
                else for (int off : {8, 1 + (g.k + g.m) % 15}) {
                    std::vector<const std::vector<uint8_t> *> fr2;
                    for (int i = e; i < n; i++) fr2.push_back(&s2.frags[i]);
                    FragSet fa; fa.build(fr2, std::vector<int>(fr2.size(), off));
                    DecodeOut oa = decode(d, fa, s2.fraglen, 0);
                    if (oa.rc == 0) { if (oa.out != data2) r.fail("decode from buffers at offset " + std::to_string(off) + " returned wrong data"); }
                    else if (demand) r.fail("decode from buffers at offset " + std::to_string(off) + " failed rc=" + std::to_string(oa.rc));
                }
            }
            if (e >= 1) {
                FragSet f2; f2.build(frs, {});
                ReconOut ro = reconstruct(d, f2, s.fraglen, 0);
                if (ro.rc == 0) { if (ro.out != s.frags[0]) r.fail("reconstruct returned wrong fragment"); }
                else if (demand) r.fail("reconstruct within tolerance failed rc=" + std::to_string(ro.rc));
            }
            if (e >= 1 && len == lens[2]) {
                // "any accepted instance can be used": also one whose very first operation is a rebuild (or a decode) of
                // fragments that another instance of the same configuration wrote
                int d2 = liberasurecode_instance_create((unsigned)g.backend, &a);
                if (d2 <= 0) r.fail("second create of an accepted configuration failed rc=" + std::to_string(d2));
                else {
                    if ((g.k + g.m) & 1) {
                        FragSet f3; f3.build(frs, {});
                        ReconOut ro = reconstruct(d2, f3, s.fraglen, 0);
                        if (ro.rc == 0) { if (ro.out != s.frags[0]) r.fail("fresh instance: reconstruct as first operation returned a wrong fragment"); }
                        else if (demand) r.fail("fresh instance: reconstruct as first operation failed rc=" + std::to_string(ro.rc));
                    }
                    FragSet f4; f4.build(frs, {});
                    DecodeOut o2 = decode(d2, f4, s.fraglen, 0);
                    if (o2.rc == 0) { if (o2.out != data) r.fail("fresh instance: decode returned wrong data"); }
                    else if (demand) r.fail("fresh instance: decode failed rc=" + std::to_string(o2.rc));
                    if (liberasurecode_instance_destroy(d2) != 0) r.fail("destroy of the second instance failed");
                }
            }
        }
    }
    if (real && g.m >= 1) {
        int R[2] = {0, -1}, X[1] = {-1};
        std::vector<int> N(n + 1, -1);
        int rc = liberasurecode_fragments_needed(d, R, X, N.data());
        if (rc != 0) r.fail("fragments_needed failed rc=" + std::to_string(rc) + " on an accepted instance");
    }
    if (liberasurecode_instance_destroy(d) != 0) r.fail("destroy failed");
    witness_check(g.backend, r, "after the life of an accepted instance");
    // LeakSanitizer decides; the stop-the-world check is skipped only when the allocator's live byte count is exactly
    // what it was before create (nothing can have leaked then), plus a deterministic 1/16 sample regardless
    if (!r.ok || __sanitizer_get_current_allocated_bytes() != bytes_before || ((g.k * 31 + g.m * 7 + g.hd * 3 + g.w + g.backend) % 16) == 0) leak_free(r, "full cycle");
    return r;
}
static const int WS[] = {-1, 0, 4, 7, 8, 16, 32, 64};
static void sweep_box() {
    bool th = opts().tier == "thorough";
    int shard = (int)opts().shard, ns = (int)opts().nshards, counter = 0;
    for (int be = 0; be <= 8; be++) {
        if (!th && (be == 2 || be == 5 || be == 8)) continue;      // quick: one uninstalled back end (id 1) stands for the others
        for (int k = -1; k <= 33; k++) for (int m = -1; m <= 33; m++)
            for (int hd = 0; hd <= 7; hd++) for (int wi = 0; wi < 8; wi++) {
                if (!th) {
                    // quick: full (k,m) plane for a few (hd,w) columns; full (hd,w) plane near the k+m boundary
                    bool col = (hd == 0 || hd == 3 || hd == 4) && (wi == 1 || wi == 4);
                    bool edge = (k <= 1 || m <= 1 || (k + m >= 31 && k + m <= 33)) && ((k * 7 + m * 3 + hd + wi) % 6 == 0);
                    if (!col && !edge) continue;
                }
                if ((counter++ % ns) != shard) continue;
                Case c; Config g; g.backend = be; g.k = k; g.m = m; g.hd = hd; g.w = WS[wi]; g.ct = ((k + m) & 1) ? CT_CRC32 : CT_NONE;
                cfg_to(c, g);
                c.set("witness", (counter / 96) & 1);
                sweep_case(c, run_box);
            }
    }
    stats().exhaustive = th;
    stats().extra["box_backends"] = 9;
    stats().extra["sum_lsan_checks"] = g_lsan_calls;
}
static Case gen_box() {
    Case c; Config g;
    g.backend = (int)pick(0, 8);
    if (coin(2, 3)) { static const int real[] = {0, 3, 4, 6, 7}; g.backend = real[pick(0, 4)]; }
    auto edge = [&](int lo, int hi) { return coin() ? (int)pick(lo, hi) : (coin() ? lo + (int)pick(0, 2) : hi - (int)pick(0, 2)); };
    g.k = edge(-1, 33); g.m = edge(-1, 33);
    if (coin(1, 3)) { g.k = (int)pick(1, 31); g.m = 32 - g.k + (int)pick(-1, 1); }
    g.hd = (int)pick(0, 7);
    if (g.backend == ref::B_XOR && coin(2, 3)) { const ref::XorShape &s = ref::XOR_SHAPES[pick(0, ref::N_XOR_SHAPES - 1)]; g.k = s.k + (int)pick(-1, 1) * (coin(1, 3) ? 1 : 0); g.m = s.m; g.hd = s.hd; }
    g.w = WS[pick(0, 7)];
    g.ct = (int)pick(1, 3);
    cfg_to(c, g);
    c.set("witness", coin(1, 3) ? 1 : 0);
    return c;
}

int main(int argc, char **argv) {
    Harness h;
    h.prop = "C13";
    h.mode("c13_grid", sweep_grid, run_grid);
    h.mode("c13_grid_rc", [] { rc_property("C13 argument grid", gen_grid, run_grid); }, run_grid);
    h.mode("c13_box", sweep_box, run_box);
    h.mode("c13_box_rc", [] { rc_property("C13 configuration box", gen_box, run_box); }, run_box);
    return harness_main(argc, argv, h);
}
