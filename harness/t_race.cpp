// C18 (tier 1): generated multi-threaded workloads under ThreadSanitizer.
// Oracle: no TSan report during the case, every result equals the sequential reference, descriptors of
// simultaneously live instances are distinct, every successful create is immediately usable.
#include "lib.hpp"
#include <pthread.h>
#include <atomic>
#include <algorithm>
using namespace fw;
using namespace lib;

static std::atomic<int> g_tsan_reports{0};
extern "C" void __tsan_on_report(void *) { g_tsan_reports.fetch_add(1, std::memory_order_relaxed); }

enum { T_OWN_CYCLE, T_SHARED_ENCODE, T_SHARED_DECODE, T_SHARED_RECON, T_SHARED_QUERY, T_OWN_HOLD, T_SHARED_VERIFY, T_NOPS };
static const char *TOPN[] = {"own_cycle", "shared_encode", "shared_decode", "shared_recon", "shared_query", "own_hold", "shared_verify"};

static Config own_shape(int a) {
    Config g;
    static const int bes[] = {ref::B_RS, ref::B_RS, ref::B_XOR, ref::B_ISA_C, ref::B_NULL, ref::B_RS, ref::B_ISA_V, ref::B_XOR};
    g.backend = bes[a % 8];
    if (ref::is_isa(g.backend) && !isa_available()) g.backend = ref::B_RS;
    int sel = a / 8;
    if (g.backend == ref::B_XOR) { const ref::XorShape &s = ref::XOR_SHAPES[sel % ref::N_XOR_SHAPES]; g.k = s.k; g.m = s.m; g.hd = s.hd; }
    else { static const int ks[] = {2, 3, 4, 6, 10}; g.k = ks[sel % 5]; g.m = 1 + (sel / 5) % 4; g.hd = g.m; }
    g.ct = (a & 1) ? CT_CRC32 : CT_NONE;
    return g;
}
static std::vector<uint8_t> tdata(const Config &g, int b) {
    size_t units = (b % 8 == 5) ? 700 : (size_t)(1 + b % 4);       // one draw in eight: payloads of 1.4-2.8 KiB per fragment (bulk code paths)
    std::vector<uint8_t> d((size_t)g.k * ref::word_bytes(g) * units + (b % 3));
    uint64_t sd = 1000 + b;
    for (auto &x : d) x = (uint8_t)splitmix64(sd);
    return d;
}

// erasure set for a decode: 1..tolerance fragments; for flat-XOR hd=4 half of the draws are all-data triples
// that no single parity isolates (the P xor Q path of the three-data decoder), computed from the golden equations
static std::vector<int> pick_erasures(const Config &g, int b) {
    int t = ref::tolerance(g), n = g.n();
    std::vector<int> E;
    if (t < 1) return E;
    uint64_t sd = 0x5151 + (uint64_t)b * 2654435761u;
    if (g.backend == ref::B_XOR && g.hd == 4 && (b & 1)) {
        const ref::XorShape *sh = ref::xor_shape(g.k, g.m, g.hd);
        for (int tries = 0; tries < 200; tries++) {
            int x = (int)(splitmix64(sd) % g.k), y = (int)(splitmix64(sd) % g.k), z = (int)(splitmix64(sd) % g.k);
            if (x == y || y == z || x == z) continue;
            uint64_t T = (1ull << x) | (1ull << y) | (1ull << z);
            bool isolated = false;
            for (int j = 0; j < g.m; j++) if (__builtin_popcountll(ref::xor_parity_mask(sh, j) & T) == 1) isolated = true;
            if (!isolated) return {x, y, z};
        }
    }
    int e = 1 + (int)(splitmix64(sd) % t);
    std::vector<bool> gone(n, false);
    while ((int)E.size() < e) { int x = (int)(splitmix64(sd) % n); if (!gone[x]) { gone[x] = true; E.push_back(x); } }
    return E;
}
struct Shared { Config g; int desc = -1; Stripe s; };
struct LiveRec { int desc; uint64_t t_create, t_destroy; };
struct TOp { int op, a, b; };
struct Worker {
    int tid; std::vector<TOp> ops; std::vector<Shared> *shared; pthread_barrier_t *bar; std::atomic<uint64_t> *clock;
    std::string err; std::vector<LiveRec> lives; int spins = 0;
    std::atomic<uint64_t> *progress = nullptr; std::atomic<int> *finished = nullptr;
};

static bool cycle_check(int desc, const Config &g, int b, std::string &err) {
    std::vector<uint8_t> data = tdata(g, b);
    Stripe s = encode(desc, g, data);
    if (s.rc != 0) { err = "encode failed rc=" + std::to_string(s.rc) + " on a freshly created instance"; return false; }
    auto want = ref::serialize_stripe(g, data.data(), data.size(), liberasurecode_get_version(), false);
    for (int i = 0; i < g.n(); i++) if (s.frags[i] != want[i]) { err = "encode output differs from the sequential reference (fragment " + std::to_string(i) + ")"; return false; }
    if (g.backend == ref::B_NULL) return true;
    int n = g.n();
    std::vector<int> E = pick_erasures(g, b);
    if (E.empty()) return true;
    int lost = E[0];
    std::vector<const std::vector<uint8_t> *> frs; uint64_t pm = 0;
    for (int i = 0; i < n; i++) if (std::find(E.begin(), E.end(), i) == E.end()) { frs.push_back(&s.frags[i]); pm |= 1ull << i; }
    bool demand = !(g.backend == ref::B_ISA_V && !ref::isa_first_k_invertible(g, pm));
    { FragSet fs; fs.build(frs, {}); DecodeOut d = decode(desc, fs, s.fraglen, 0);
      if (d.rc == 0) { if (d.out != data) { err = "decode returned wrong data"; return false; } } else if (demand) { err = "decode failed rc=" + std::to_string(d.rc); return false; } }
    { FragSet fs; fs.build(frs, {}); ReconOut o = reconstruct(desc, fs, s.fraglen, lost);
      if (o.rc == 0) { if (o.out != s.frags[lost]) { err = "reconstruct returned a different fragment"; return false; } } else if (demand) { err = "reconstruct failed rc=" + std::to_string(o.rc); return false; } }
    return true;
}

static void *worker_main(void *p) {
    Worker &w = *(Worker *)p;
    std::vector<std::pair<int, Config>> held;
    pthread_barrier_wait(w.bar);
    for (auto &o : w.ops) {
        if (!w.err.empty()) break;
        if (w.progress) w.progress->fetch_add(1);
        for (int i = 0; i < (o.b >> 8) % 4; i++) sched_yield();      // generated padding
        switch (o.op) {
        case T_OWN_CYCLE: case T_OWN_HOLD: {
            Config g = own_shape(o.a);
            int d = create(g);
            uint64_t tc = w.clock->fetch_add(1);
            if (d <= 0) { w.err = "create failed rc=" + std::to_string(d); break; }
            if (!cycle_check(d, g, o.b & 0xff, w.err)) break;
            if (o.op == T_OWN_HOLD && held.size() < 3) { held.push_back({d, g}); w.lives.push_back({d, tc, ~0ull}); break; }
            uint64_t td = w.clock->fetch_add(1);
            int rc = liberasurecode_instance_destroy(d);
            if (rc != 0) { w.err = "destroy of own instance failed rc=" + std::to_string(rc); break; }
            w.lives.push_back({d, tc, td});
            break;
        }
        case T_SHARED_ENCODE: {
            if (w.shared->empty()) break;
            Shared &sh = (*w.shared)[o.a % w.shared->size()];
            std::string e; if (!cycle_check(sh.desc, sh.g, o.b & 0xff, e)) w.err = "shared descriptor: " + e;
            break;
        }
        case T_SHARED_DECODE: case T_SHARED_RECON: {
            if (w.shared->empty()) break;
            Shared &sh = (*w.shared)[o.a % w.shared->size()];
            if (sh.g.backend == ref::B_NULL) break;
            int n = sh.g.n();
            std::vector<int> E = pick_erasures(sh.g, o.b & 0xff);
            if (E.empty()) break;
            int lost = E[(o.b >> 3) % E.size()];
            std::vector<const std::vector<uint8_t> *> frs; uint64_t pm = 0;
            for (int i = 0; i < n; i++) if (std::find(E.begin(), E.end(), i) == E.end()) { frs.push_back(&sh.s.frags[i]); pm |= 1ull << i; }
            bool demand = !(sh.g.backend == ref::B_ISA_V && !ref::isa_first_k_invertible(sh.g, pm));
            FragSet fs; fs.build(frs, {(o.b >> 4) & 15});
            if (o.op == T_SHARED_DECODE) { DecodeOut d = decode(sh.desc, fs, sh.s.fraglen, o.b & 1);
                if (d.rc == 0) { if (d.out != sh.s.data) w.err = "shared decode returned wrong data"; } else if (demand) w.err = "shared decode failed rc=" + std::to_string(d.rc); }
            else { ReconOut r = reconstruct(sh.desc, fs, sh.s.fraglen, lost);
                if (r.rc == 0) { if (r.out != sh.s.frags[lost]) w.err = "shared reconstruct returned a different fragment"; } else if (demand) w.err = "shared reconstruct failed rc=" + std::to_string(r.rc); }
            break;
        }
        case T_SHARED_VERIFY: {
            // stripe-level verification (one registry look-up per fragment) in a tight loop while other threads create
            // and destroy instances: must answer 0 every time - and must come back
            if (w.shared->empty()) break;
            Shared &sh = (*w.shared)[o.a % w.shared->size()];
            if (sh.g.backend == ref::B_NULL) break;
            std::vector<InBuf *> bufs; std::vector<char *> ptrs;
            for (auto &f : sh.s.frags) { bufs.push_back(new InBuf(f, false)); ptrs.push_back(bufs.back()->p); }
            int rounds = 20 + (o.b & 0xff);
            for (int i = 0; i < rounds && w.err.empty(); i++) {
                int rc = liberasurecode_verify_stripe_metadata(sh.desc, ptrs.data(), (int)ptrs.size());
                if (rc != 0) w.err = "verify_stripe_metadata on an intact shared stripe returned " + std::to_string(rc);
                if (w.progress) w.progress->fetch_add(1);
            }
            for (auto *b : bufs) delete b;
            break;
        }
        case T_SHARED_QUERY: {
            if (w.shared->empty()) break;
            Shared &sh = (*w.shared)[o.a % w.shared->size()];
            int want = sh.g.k * ref::word_bytes(sh.g);
            if (liberasurecode_get_minimum_encode_size(sh.desc) != want) w.err = "shared size query wrong";
            if (liberasurecode_backend_available((unsigned)sh.g.backend) <= 0) w.err = "backend_available says an installed back end (with live instances) is not available";
            if (liberasurecode_get_fragment_size(sh.desc, 1000) <= 0 || liberasurecode_get_aligned_data_size(sh.desc, 1000) <= 0) w.err = "shared size query failed";
            ExactBuf fb(sh.s.frags[(o.b & 0xff) % sh.g.n()]);
            fragment_metadata_t md;
            if (liberasurecode_get_fragment_metadata(fb.p, &md) != 0 || is_invalid_fragment(sh.desc, fb.p) != 0) w.err = "shared metadata/validation failed";
            if (sh.g.backend != ref::B_NULL) { int R[2] = {0, -1}, X[1] = {-1}; std::vector<int> N(sh.g.n() + 1, -1); if (liberasurecode_fragments_needed(sh.desc, R, X, N.data()) != 0) w.err = "shared fragments_needed failed"; }
            break;
        }
        }
    }
    for (auto &h : held) { uint64_t td = w.clock->fetch_add(1); if (liberasurecode_instance_destroy(h.first) != 0 && w.err.empty()) w.err = "destroy of held instance failed"; for (auto &l : w.lives) if (l.desc == h.first && l.t_destroy == ~0ull) { l.t_destroy = td; break; } }
    if (w.finished) w.finished->fetch_add(1);
    return nullptr;
}

static Result run_c18(const Case &c) {
    Result r;
    int nt = (int)c.get("threads");
    std::vector<int> fl = c.ints("ops"), sh = c.ints("shared");
    std::vector<Shared> shared;
    for (int a : sh) {
        Shared s; s.g = own_shape(a); s.desc = create(s.g);
        if (s.desc <= 0) { r.fail("setup create failed"); return r; }
        if (c.get("cold_shared")) {
            // the stripe comes from a sibling instance: the shared descriptor has never been used when the threads start
            Instance sib(s.g);
            if (!sib.ok()) { r.fail("setup create failed"); return r; }
            s.s = encode(sib.desc, s.g, tdata(s.g, a % 50));
        } else s.s = encode(s.desc, s.g, tdata(s.g, a % 50));
        if (s.s.rc != 0) { r.fail("setup encode failed"); return r; }
        shared.push_back(std::move(s));
    }
    int before = g_tsan_reports.load();
    pthread_barrier_t bar; pthread_barrier_init(&bar, nullptr, nt);
    std::atomic<uint64_t> clock{0};
    std::vector<Worker> ws(nt);
    std::atomic<uint64_t> progress{0}; std::atomic<int> finished{0};
    for (int t = 0; t < nt; t++) { ws[t].tid = t; ws[t].shared = &shared; ws[t].bar = &bar; ws[t].clock = &clock; ws[t].progress = &progress; ws[t].finished = &finished; }
    std::map<std::string, int> opcount;
    bool any_rs_first = true;
    for (auto &s : shared) if (s.g.backend == ref::B_RS) any_rs_first = false;
    int rs_creators = 0;
    for (size_t i = 0; i + 3 < fl.size() + 0; i += 4) {
        int t = fl[i] % nt; TOp o{fl[i + 1] % T_NOPS, fl[i + 2], fl[i + 3]};
        if ((o.op == T_OWN_CYCLE || o.op == T_OWN_HOLD) && own_shape(o.a).backend == ref::B_RS && ws[t].ops.empty()) rs_creators++;
        ws[t].ops.push_back(o); opcount[TOPN[o.op]]++;
    }
    std::vector<pthread_t> th(nt);
    for (int t = 0; t < nt; t++) pthread_create(&th[t], nullptr, worker_main, &ws[t]);
    {
        // watchdog: the calls must come back. No thread finishing an operation for 45 seconds (an operation takes
        // milliseconds) while some are still inside the library is reported as a deadlock; the threads cannot be
        // joined then, so the verdict ends the process (fatal result, case saved as it is)
        uint64_t last = progress.load(); int quiet = 0;
        int limit = (int)opts().geti("hang_seconds", 45);
        while (finished.load() < nt) {
            usleep(100000);
            uint64_t now = progress.load();
            if (now != last) { last = now; quiet = 0; } else if (++quiet > limit * 10) {
                r.fatal = true;
                r.fail("no thread completed an operation for " + std::to_string(limit) + " s while " + std::to_string(nt - finished.load()) + " thread(s) are still inside the library: deadlock");
                return r;
            }
        }
    }
    for (int t = 0; t < nt; t++) pthread_join(th[t], nullptr);
    pthread_barrier_destroy(&bar);
    for (auto &w : ws) if (!w.err.empty()) r.fail("thread " + std::to_string(w.tid) + ": " + w.err);
    // descriptors of overlapping lifetimes must differ
    std::vector<LiveRec> all;
    for (auto &w : ws) all.insert(all.end(), w.lives.begin(), w.lives.end());
    for (size_t i = 0; i < all.size() && r.ok; i++) for (size_t j = i + 1; j < all.size(); j++)
        if (all[i].desc == all[j].desc && all[i].t_create < all[j].t_destroy && all[j].t_create < all[i].t_destroy) { r.fail("descriptor " + std::to_string(all[i].desc) + " was issued to two instances that were live at the same time"); break; }
    for (auto &s : shared) for (auto &l : all) if (l.desc == s.desc) r.fail("a thread's create returned the descriptor of a live shared instance");
    for (auto &s : shared) {
        std::string e; if (r.ok && !cycle_check(s.desc, s.g, 7, e)) r.fail("shared instance damaged after the run: " + e);
        liberasurecode_instance_destroy(s.desc);
    }
    int reports = g_tsan_reports.load() - before;
    if (reports > 0) r.fail("ThreadSanitizer reported " + std::to_string(reports) + " data race(s) during this workload (report text in the process log)");
    r.cls("threads_" + std::to_string(nt));
    for (auto &p : opcount) r.cls("op_" + p.first);
    if (any_rs_first && rs_creators >= 2) r.cls("concurrent_first_rs_create");
    r.nontrivial = nt >= 2 && (int)fl.size() / 4 >= nt;
    return r;
}
static Case gen_c18() {
    Case c;
    int nt = weighted({0, 0, 4, 2, 2, 0, 0, 0, 1}) ;        // index = thread count bucket
    static const int counts[] = {2, 2, 2, 3, 4, 4, 4, 4, 8};
    nt = counts[nt];
    if (coin(1, 8)) nt = (int)pick(2, 16);
    c.set("threads", nt);
    int nshared = weighted({2, 3, 2});
    std::vector<int> sh;
    bool no_rs = coin();
    for (int i = 0; i < nshared; i++) { int a = (int)pick(0, 255); if (no_rs && own_shape(a).backend == ref::B_RS) a = (a & ~7) | 2; sh.push_back(a); }
    c.setv("shared", sh);
    int per = (int)pick(1, 6);
    std::vector<int> ops;
    for (int t = 0; t < nt; t++) for (int j = 0; j < per; j++) {
        int op = nshared ? weighted({5, 2, 2, 2, 2, 2, 2}) : weighted({5, 0, 0, 0, 0, 2, 0});
        int a = (int)pick(0, 255);
        if (j == 0 && coin(2, 3) && (op == T_OWN_CYCLE || op == T_OWN_HOLD)) a &= ~7;     // RS first: concurrent first-ever RS creates
        ops.push_back(t); ops.push_back(op); ops.push_back(a); ops.push_back((int)pick(0, 1023));
    }
    if (coin(1, 4)) {
        // scenario: every thread decodes / reconstructs through ONE shared flat-XOR hd=4 descriptor with
        // three-data erasure sets (scratch state shared between decodes would race here)
        int hd4 = -1;
        for (int tries = 0; tries < 64 && hd4 < 0; tries++) { int a = ((int)pick(0, 31) * 8) | 2; if (own_shape(a).hd == 4) hd4 = a; }
        if (hd4 >= 0) {
            c.setv("shared", std::vector<int>{hd4});
            ops.clear();
            for (int t = 0; t < nt; t++) for (int j = 0; j < per + 1; j++) { ops.push_back(t); ops.push_back(coin(3, 4) ? T_SHARED_DECODE : T_SHARED_RECON); ops.push_back(0); ops.push_back((int)pick(0, 1023) | 1); }
        }
    }
    if (coin(1, 6)) {
        // scenario: half of the threads verify a wide shared stripe in a loop, the others create, use and destroy
        // instances (registry writers arriving while a reader is in the middle of a multi-look-up call)
        int wide = ((int)pick(0, 7) * 5 + 4) * 8 + (coin() ? 0 : 2);        // RS k=10 or a flat-XOR table
        c.setv("shared", std::vector<int>{wide});
        ops.clear();
        for (int t = 0; t < nt; t++) for (int j = 0; j < per + 1; j++) {
            ops.push_back(t);
            if (t % 2 == 0) { ops.push_back(T_SHARED_VERIFY); ops.push_back(0); ops.push_back(255); }
            else { ops.push_back(T_OWN_CYCLE); ops.push_back((int)pick(0, 255)); ops.push_back((int)pick(0, 255)); }
        }
    }
    c.setv("ops", ops);
    c.set("cold_shared", coin() ? 1 : 0);
    return c;
}

int main(int argc, char **argv) {
    Harness h;
    h.prop = "C18";
    h.mode("c18_tsan", [] { rc_property("C18 TSan workloads", gen_c18, run_c18); }, run_c18);
    return harness_main(argc, argv, h);
}
