// Independent reference models. No liberasurecode header or symbol is used here.
#pragma once
#include <cstdint>
#include <cstring>
#include <vector>
#include <array>
#include <string>
#include <algorithm>

namespace ref {

// ---------------------------------------------------------------- GF(2^16), poly 0x1100b
inline uint32_t gf16_mul(uint32_t a, uint32_t b) {
    uint32_t r = 0;
    a &= 0xffff; b &= 0xffff;
    while (b) {
        if (b & 1) r ^= a;
        b >>= 1;
        a <<= 1;
        if (a & 0x10000) a ^= 0x1100b;
    }
    return r & 0xffff;
}
inline uint32_t gf16_pow(uint32_t a, uint32_t e) {
    uint32_t r = 1;
    while (e) { if (e & 1) r = gf16_mul(r, a); a = gf16_mul(a, a); e >>= 1; }
    return r;
}
inline uint32_t gf16_inv(uint32_t a) { return gf16_pow(a, 65534); }
// L_j(x) = prod_{i<k, i!=j} (x xor i);  coef(k, r, j) = L_j(r) / L_j(k)   (r = absolute row >= k)
inline uint32_t gf16_L(int k, int j, uint32_t x) {
    uint32_t p = 1;
    for (int i = 0; i < k; i++) if (i != j) p = gf16_mul(p, x ^ (uint32_t)i);
    return p;
}
inline uint32_t rs16_coef(int k, int r, int j) {
    return gf16_mul(gf16_L(k, j, (uint32_t)r), gf16_inv(gf16_L(k, j, (uint32_t)k)));
}
// full (k+m) x k generator: identity on top, closed form below
inline std::vector<uint32_t> rs16_generator(int k, int m) {
    std::vector<uint32_t> g((size_t)(k + m) * k, 0);
    for (int i = 0; i < k; i++) g[(size_t)i * k + i] = 1;
    // L_j(k) inverse is shared by all rows
    std::vector<uint32_t> invLk(k);
    for (int j = 0; j < k; j++) invLk[j] = gf16_inv(gf16_L(k, j, (uint32_t)k));
    for (int r = k; r < k + m; r++)
        for (int j = 0; j < k; j++)
            g[(size_t)r * k + j] = gf16_mul(gf16_L(k, j, (uint32_t)r), invLk[j]);
    return g;
}
// multiply-by-constant via two 256-entry tables built with shift/xor arithmetic only
struct Gf16ConstMul {
    uint16_t lo[256], hi[256];
    explicit Gf16ConstMul(uint32_t c) {
        for (uint32_t b = 0; b < 256; b++) { lo[b] = (uint16_t)gf16_mul(c, b); hi[b] = (uint16_t)gf16_mul(c, b << 8); }
    }
    uint16_t operator()(uint16_t x) const { return lo[x & 0xff] ^ hi[x >> 8]; }
};

// ---------------------------------------------------------------- GF(2^8), poly 0x11d
inline uint8_t gf8_mul(uint8_t a, uint8_t b) {
    uint32_t r = 0, aa = a, bb = b;
    while (bb) {
        if (bb & 1) r ^= aa;
        bb >>= 1;
        aa <<= 1;
        if (aa & 0x100) aa ^= 0x11d;
    }
    return (uint8_t)r;
}
inline uint8_t gf8_pow(uint8_t a, unsigned e) { uint8_t r = 1; while (e) { if (e & 1) r = gf8_mul(r, a); a = gf8_mul(a, a); e >>= 1; } return r; }
inline uint8_t gf8_inv(uint8_t a) { return gf8_pow(a, 254); }
// ISA-L gf_gen_rs_matrix(a, n, k): identity, then row k+r = [gen^0, gen^1, ...] with gen = 2^r
inline std::vector<uint8_t> isa_rs_matrix(int k, int n) {
    std::vector<uint8_t> a((size_t)n * k, 0);
    for (int i = 0; i < k; i++) a[(size_t)k * i + i] = 1;
    uint8_t gen = 1;
    for (int i = k; i < n; i++) {
        uint8_t p = 1;
        for (int j = 0; j < k; j++) { a[(size_t)k * i + j] = p; p = gf8_mul(p, gen); }
        gen = gf8_mul(gen, 2);
    }
    return a;
}
// ISA-L gf_gen_cauchy1_matrix(a, n, k): identity, then a[i][j] = 1/(i xor j), i>=k, j<k
inline std::vector<uint8_t> isa_cauchy_matrix(int k, int n) {
    std::vector<uint8_t> a((size_t)n * k, 0);
    for (int i = 0; i < k; i++) a[(size_t)k * i + i] = 1;
    for (int i = k; i < n; i++)
        for (int j = 0; j < k; j++) a[(size_t)k * i + j] = gf8_inv((uint8_t)(i ^ j));
    return a;
}

// generic rank over a field given as (mul, inv) on uint32 elements; rows x cols matrix
template <class Mul, class Inv>
inline int matrix_rank(std::vector<uint32_t> a, int rows, int cols, Mul mul, Inv inv) {
    int r = 0;
    for (int c = 0; c < cols && r < rows; c++) {
        int piv = -1;
        for (int i = r; i < rows; i++) if (a[(size_t)i * cols + c]) { piv = i; break; }
        if (piv < 0) continue;
        if (piv != r) for (int j = 0; j < cols; j++) std::swap(a[(size_t)piv * cols + j], a[(size_t)r * cols + j]);
        uint32_t iv = inv(a[(size_t)r * cols + c]);
        for (int j = 0; j < cols; j++) a[(size_t)r * cols + j] = mul(a[(size_t)r * cols + j], iv);
        for (int i = 0; i < rows; i++) if (i != r && a[(size_t)i * cols + c]) {
            uint32_t f = a[(size_t)i * cols + c];
            for (int j = 0; j < cols; j++) a[(size_t)i * cols + j] ^= mul(f, a[(size_t)r * cols + j]);
        }
        r++;
    }
    return r;
}
inline int rank_gf16(const std::vector<uint32_t> &a, int rows, int cols) {
    return matrix_rank(a, rows, cols, [](uint32_t x, uint32_t y) { return gf16_mul(x, y); }, [](uint32_t x) { return gf16_inv(x); });
}
inline int rank_gf8(const std::vector<uint32_t> &a, int rows, int cols) {
    return matrix_rank(a, rows, cols, [](uint32_t x, uint32_t y) { return (uint32_t)gf8_mul((uint8_t)x, (uint8_t)y); }, [](uint32_t x) { return (uint32_t)gf8_inv((uint8_t)x); });
}
// GF(2) rank of a set of bit-vectors
inline int rank_gf2(std::vector<uint64_t> v) {
    int r = 0;
    for (int bit = 0; bit < 64; bit++) {
        int piv = -1;
        for (size_t i = r; i < v.size(); i++) if (v[i] >> bit & 1) { piv = (int)i; break; }
        if (piv < 0) continue;
        std::swap(v[r], v[piv]);
        for (size_t i = 0; i < v.size(); i++) if ((int)i != r && (v[i] >> bit & 1)) v[i] ^= v[r];
        r++;
    }
    return r;
}

// ---------------------------------------------------------------- CRC-32
// standard reflected CRC-32, bit serial
inline uint32_t crc32_std(const uint8_t *p, size_t n) {
    uint32_t c = 0xffffffffu;
    for (size_t i = 0; i < n; i++) {
        c ^= p[i];
        for (int b = 0; b < 8; b++) c = (c >> 1) ^ (0xEDB88320u & (0u - (c & 1)));
    }
    return c ^ 0xffffffffu;
}
// historical liberasurecode CRC (launchpad 1666320): the input byte was read through a *signed*
// char and the running state was a signed int, so (a) bytes >= 0x80 are sign-extended before being
// xored into the state's low byte (only the low 8 bits select the table entry, so that part is
// harmless) and (b) the per-byte "state >> 8" was an arithmetic shift: the 24 surviving bits are
// sign-extended from bit 23.  The byte term is computed bit-serially, not from the library's table.
inline uint32_t crc32_legacy(const uint8_t *p, size_t n) {
    uint32_t c = 0xffffffffu;
    for (size_t i = 0; i < n; i++) {
        uint32_t idx = (c ^ p[i]) & 0xff;
        uint32_t t = idx;
        for (int b = 0; b < 8; b++) t = (t >> 1) ^ (0xEDB88320u & (0u - (t & 1)));
        uint32_t sh = (c >> 8) & 0x00ffffffu;
        if (sh & 0x00800000u) sh |= 0xff000000u;   // sign extension from bit 23
        c = t ^ sh;
    }
    return c ^ 0xffffffffu;
}

// ---------------------------------------------------------------- flat XOR golden equations
struct XorShape { int k, m, hd; int eq[6][24]; };
static const XorShape XOR_SHAPES[] = {
#include "xor_golden.inc"
};
static const int N_XOR_SHAPES = (int)(sizeof(XOR_SHAPES) / sizeof(XOR_SHAPES[0]));
inline const XorShape *xor_shape(int k, int m, int hd) {
    for (int i = 0; i < N_XOR_SHAPES; i++)
        if (XOR_SHAPES[i].k == k && XOR_SHAPES[i].m == m && XOR_SHAPES[i].hd == hd) return &XOR_SHAPES[i];
    return nullptr;
}
// parity j as bitmask over data indexes
inline uint64_t xor_parity_mask(const XorShape *s, int j) {
    uint64_t b = 0;
    for (int t = 0; s->eq[j][t] >= 0; t++) b |= 1ull << s->eq[j][t];
    return b;
}
// column (as GF(2) vector over data symbols) of fragment idx
inline uint64_t xor_column(const XorShape *s, int idx) {
    return idx < s->k ? (1ull << idx) : xor_parity_mask(s, idx - s->k);
}

// ---------------------------------------------------------------- configuration
enum { B_NULL = 0, B_XOR = 3, B_ISA_V = 4, B_RS = 6, B_ISA_C = 7 };
struct Config {
    int backend = B_RS, k = 1, m = 1, hd = 0, w = 0, ct = 1;
    int n() const { return k + m; }
};
inline bool is_isa(int b) { return b == B_ISA_V || b == B_ISA_C; }
// word size in bytes used for alignment of the payload
inline int word_bytes(const Config &c) {
    switch (c.backend) {
    case B_RS: return 2;
    case B_XOR: return 4;
    case B_NULL: return 4;
    case B_ISA_V: case B_ISA_C: return (c.w <= 0 ? 8 : c.w) / 8;
    }
    return 1;
}
inline uint32_t backend_version(int backend) {
    switch (backend) {
    case B_RS: case B_XOR: case B_NULL: return (1u << 16);
    case B_ISA_V: return (2u << 16) | (13u << 8);
    case B_ISA_C: return (2u << 16) | (14u << 8) | 1u;
    }
    return 0;
}
// tolerance: maximum number of erasures always recoverable
inline int tolerance(const Config &c) { return c.backend == B_XOR ? c.hd - 1 : c.m; }
inline bool shape_supported(const Config &c) {
    if (c.k < 1 || c.m < 0 || c.k + c.m > 32) return false;
    if (c.backend == B_XOR) return xor_shape(c.k, c.m, c.hd) != nullptr;
    return true;
}
inline uint64_t aligned_size(const Config &c, uint64_t len) {
    uint64_t a = (uint64_t)c.k * word_bytes(c);
    return (len + a - 1) / a * a;
}
inline uint64_t block_size(const Config &c, uint64_t len) { return aligned_size(c, len) / c.k; }

// ---------------------------------------------------------------- generator rows / recoverability
// rows of the generator as vectors over the field, for RS (gf16) and ISA (gf8)
inline std::vector<uint32_t> generator_matrix(const Config &c) {
    if (c.backend == B_RS) return rs16_generator(c.k, c.m);
    std::vector<uint8_t> a = c.backend == B_ISA_V ? isa_rs_matrix(c.k, c.n()) : isa_cauchy_matrix(c.k, c.n());
    return std::vector<uint32_t>(a.begin(), a.end());
}
inline int rank_of_rows(const Config &c, const std::vector<uint32_t> &gen, const std::vector<int> &rows) {
    std::vector<uint32_t> sub;
    for (int r : rows) sub.insert(sub.end(), gen.begin() + (size_t)r * c.k, gen.begin() + (size_t)(r + 1) * c.k);
    return c.backend == B_RS ? rank_gf16(sub, (int)rows.size(), c.k) : rank_gf8(sub, (int)rows.size(), c.k);
}
// can the data be recovered from the set of present indexes (bitmask)?
inline bool recoverable(const Config &c, uint64_t present) {
    int cnt = __builtin_popcountll(present);
    if (c.backend == B_NULL) return (present & ((1ull << c.k) - 1)) == ((1ull << c.k) - 1);
    if (c.backend == B_XOR) {
        const XorShape *s = xor_shape(c.k, c.m, c.hd);
        std::vector<uint64_t> v;
        for (int i = 0; i < c.n(); i++) if (present >> i & 1) v.push_back(xor_column(s, i));
        return rank_gf2(v) == c.k;
    }
    if (cnt < c.k) return false;
    if (c.backend == B_RS || c.backend == B_ISA_C) return true;   // MDS (C04 / Cauchy)
    std::vector<int> rows;
    for (int i = 0; i < c.n(); i++) if (present >> i & 1) rows.push_back(i);
    return rank_of_rows(c, generator_matrix(c), rows) == c.k;
}
// ISA adapters use the first k present rows: are they invertible?
inline bool isa_first_k_invertible(const Config &c, uint64_t present) {
    std::vector<int> rows;
    for (int i = 0; i < c.n() && (int)rows.size() < c.k; i++) if (present >> i & 1) rows.push_back(i);
    if ((int)rows.size() < c.k) return false;
    if (c.backend == B_ISA_C) return true;
    return rank_of_rows(c, generator_matrix(c), rows) == c.k;
}

// ---------------------------------------------------------------- payload model
// returns n payloads of block_size bytes each
inline std::vector<std::vector<uint8_t>> encode_payloads(const Config &c, const uint8_t *data, uint64_t len) {
    uint64_t bs = block_size(c, len);
    int n = c.n();
    std::vector<std::vector<uint8_t>> out(n, std::vector<uint8_t>(bs, 0));
    uint64_t off = 0;
    for (int i = 0; i < c.k; i++) {
        uint64_t cp = std::min<uint64_t>(bs, len - off);
        if (cp) memcpy(out[i].data(), data + off, cp);
        off += cp;
    }
    if (c.backend == B_RS) {
        std::vector<uint32_t> g = rs16_generator(c.k, c.m);
        uint64_t words = bs / 2;
        for (int r = 0; r < c.m; r++) {
            uint8_t *dst = out[c.k + r].data();
            for (int j = 0; j < c.k; j++) {
                uint32_t co = g[(size_t)(c.k + r) * c.k + j];
                if (!co) continue;
                Gf16ConstMul cm(co);
                const uint8_t *src = out[j].data();
                for (uint64_t wd = 0; wd < words; wd++) {
                    uint16_t x; memcpy(&x, src + 2 * wd, 2);      // host-order 16-bit word
                    uint16_t y; memcpy(&y, dst + 2 * wd, 2);
                    y ^= cm(x);
                    memcpy(dst + 2 * wd, &y, 2);
                }
            }
        }
    } else if (c.backend == B_XOR) {
        const XorShape *s = xor_shape(c.k, c.m, c.hd);
        for (int j = 0; j < c.m; j++)
            for (int t = 0; s->eq[j][t] >= 0; t++) {
                const uint8_t *src = out[s->eq[j][t]].data();
                uint8_t *dst = out[c.k + j].data();
                for (uint64_t b = 0; b < bs; b++) dst[b] ^= src[b];
            }
    } else if (is_isa(c.backend)) {
        std::vector<uint8_t> a = c.backend == B_ISA_V ? isa_rs_matrix(c.k, n) : isa_cauchy_matrix(c.k, n);
        for (int r = 0; r < c.m; r++) {
            uint8_t *dst = out[c.k + r].data();
            for (int j = 0; j < c.k; j++) {
                uint8_t co = a[(size_t)(c.k + r) * c.k + j];
                if (!co) continue;
                uint8_t tab[256];
                for (int b = 0; b < 256; b++) tab[b] = gf8_mul(co, (uint8_t)b);
                const uint8_t *src = out[j].data();
                for (uint64_t b = 0; b < bs; b++) dst[b] ^= tab[src[b]];
            }
        }
    }
    // B_NULL: parity stays zero
    return out;
}

// ---------------------------------------------------------------- header / fragment serializer
inline void put32(uint8_t *p, uint32_t v) { p[0] = v; p[1] = v >> 8; p[2] = v >> 16; p[3] = v >> 24; }
inline void put64(uint8_t *p, uint64_t v) { put32(p, (uint32_t)v); put32(p + 4, (uint32_t)(v >> 32)); }
inline uint32_t get32(const uint8_t *p) { return p[0] | p[1] << 8 | p[2] << 16 | (uint32_t)p[3] << 24; }
inline uint64_t get64(const uint8_t *p) { return get32(p) | (uint64_t)get32(p + 4) << 32; }
inline uint32_t bswap32(uint32_t x) { return x >> 24 | (x >> 8 & 0xff00) | (x << 8 & 0xff0000) | x << 24; }

enum { O_IDX = 0, O_SIZE = 4, O_BMS = 8, O_ORIG = 12, O_CT = 20, O_CHK = 21, O_MISM = 53, O_BEID = 54,
       O_BEVER = 55, O_MAGIC = 59, O_LIBVER = 63, O_MCRC = 67, O_PAD = 71, HDR_LEN = 80, META_LEN = 59 };
static const uint32_t MAGIC = 0x0b0c5eccu;

inline std::vector<uint8_t> make_fragment(const Config &c, int idx, uint64_t orig_len,
                                          const std::vector<uint8_t> &payload, uint32_t libver, bool legacy_crc) {
    std::vector<uint8_t> f(HDR_LEN + payload.size(), 0);
    put32(&f[O_IDX], (uint32_t)idx);
    put32(&f[O_SIZE], (uint32_t)payload.size());
    put32(&f[O_BMS], 0);
    put64(&f[O_ORIG], orig_len);
    f[O_CT] = (uint8_t)c.ct;
    if (c.ct == 2)
        put32(&f[O_CHK], legacy_crc ? crc32_legacy(payload.data(), payload.size()) : crc32_std(payload.data(), payload.size()));
    f[O_MISM] = 0;
    f[O_BEID] = (uint8_t)c.backend;
    put32(&f[O_BEVER], backend_version(c.backend));
    put32(&f[O_MAGIC], MAGIC);
    put32(&f[O_LIBVER], libver);
    put32(&f[O_MCRC], legacy_crc ? crc32_legacy(f.data(), META_LEN) : crc32_std(f.data(), META_LEN));
    if (!payload.empty()) memcpy(&f[HDR_LEN], payload.data(), payload.size());
    return f;
}
inline std::vector<std::vector<uint8_t>> serialize_stripe(const Config &c, const uint8_t *data, uint64_t len,
                                                          uint32_t libver, bool legacy_crc) {
    auto pl = encode_payloads(c, data, len);
    std::vector<std::vector<uint8_t>> out;
    for (int i = 0; i < c.n(); i++) out.push_back(make_fragment(c, i, len, pl[i], libver, legacy_crc));
    return out;
}
inline void reseal(uint8_t *h, bool legacy = false) {
    put32(h + O_MCRC, legacy ? crc32_legacy(h, META_LEN) : crc32_std(h, META_LEN));
}

// ---------------------------------------------------------------- acceptance predicates (C09, C12)
static const uint32_t V120 = (1u << 16) | (2u << 8);
// header acceptable for the metadata query / header validation
inline bool accept_header(const uint8_t *h) {
    uint32_t magic = get32(h + O_MAGIC), ver = get32(h + O_LIBVER), stored = get32(h + O_MCRC);
    if (ver == 0) return false;
    if (magic != MAGIC) {
        if (bswap32(magic) != MAGIC) return false;
        ver = bswap32(ver);
        stored = bswap32(stored);
    }
    if (ver < V120) return true;
    return stored == crc32_std(h, META_LEN) || stored == crc32_legacy(h, META_LEN);
}
inline bool native_magic(const uint8_t *h) { return get32(h + O_MAGIC) == MAGIC; }
// header acceptable for decode / reconstruct
inline bool accept_consume(const uint8_t *h) { return accept_header(h) && native_magic(h); }

// reference verdict of per-fragment validation against instance configuration `inst`
// (running library version `running`); frag has at least HDR_LEN bytes + payload per its size field
// which back-end versions a back end accepts is the back end's own business ("is not one the backend
// accepts"): harnesses install a query through the exported operation table; the default is the exact
// match every back end implements today (null accepts everything)
typedef bool (*accepts_fn)(int backend, uint32_t version);
inline bool accepts_exact(int backend, uint32_t version) { return backend == B_NULL || version == backend_version(backend); }
inline accepts_fn &accepts_hook() { static accepts_fn f = accepts_exact; return f; }
inline bool fragment_invalid(const Config &inst, uint32_t running, const uint8_t *f) {
    if (!accept_header(f) || !native_magic(f)) return true;
    if (get32(f + O_LIBVER) > running) return true;
    uint32_t idx = get32(f + O_IDX);
    if (idx >= (uint32_t)inst.n()) return true;
    if (f[O_BEID] != (uint8_t)inst.backend) return true;
    if (!accepts_hook()(inst.backend, get32(f + O_BEVER))) return true;
    if (f[O_CT] == 2) {
        uint32_t size = get32(f + O_SIZE), stored = get32(f + O_CHK);
        if (crc32_std(f + HDR_LEN, size) != stored && crc32_legacy(f + HDR_LEN, size) != stored) return true;
    }
    return false;
}

}  // namespace ref
