#!/usr/bin/env python3
"""Driver for the liberasurecode property checks (see DESIGN.md section 3).

  python3 check.py <ID> [--tier quick|thorough] [--replay <case>]
  python3 check.py --setup            build harness objects once
  python3 check.py --baseline-off     run the repository's own suite with the guard off

exit 0: property held on everything explored (KNOWN-FINDING lines for open findings)
exit 1: at least one "VIOLATION property=<ID> replay=<path>" line
exit 2: build / ABI probe / internal error
"""
import sys, os, subprocess, hashlib, json, time, shutil, glob, struct, re, shlex
from concurrent.futures import ThreadPoolExecutor

VERIF = os.path.dirname(os.path.abspath(__file__))
REPO = os.environ.get('VERIF_REPO', '/repo')
CACHE = os.path.join(VERIF, '.cache')
RUN = os.path.join(VERIF, '.run')
FAILDIR = os.path.join(VERIF, 'failures')
JOBS = int(os.environ.get('VERIF_JOBS', '16'))
GUARD = 'LIBERASURECODE_VERIF'
RECIPE_VERSION = '7'

CC, CXX = 'clang', 'clang++'
SAN = ['-fsanitize=address,undefined', '-fno-sanitize=shift-base', '-fno-sanitize-recover=undefined', '-fno-omit-frame-pointer']
VARIANTS = {
    'asan':       dict(cflags=['-O1', '-g'] + SAN + ['-DINTEL_SSE2', '-msse2'], ldflags=SAN),
    'asan-nosse': dict(cflags=['-O1', '-g'] + SAN, ldflags=SAN),
    'fuzz':       dict(cflags=['-O1', '-g'] + SAN + ['-fsanitize=fuzzer-no-link', '-DINTEL_SSE2', '-msse2'], ldflags=SAN),
    'tsan':       dict(cflags=['-O1', '-g', '-fsanitize=thread', '-fno-omit-frame-pointer', '-DINTEL_SSE2', '-msse2'], ldflags=['-fsanitize=thread']),
}
HARNESS_FLAGS = {
    'asan': ['-std=gnu++17', '-g', '-O1'] + SAN,
    'asan-nosse': ['-std=gnu++17', '-g', '-O1'] + SAN,
    'fuzz': ['-std=gnu++17', '-g', '-O1'] + SAN + ['-fsanitize=fuzzer-no-link'],
    'tsan': ['-std=gnu++17', '-g', '-O1', '-fsanitize=thread', '-fno-omit-frame-pointer'],
}

LIB_SOURCES = ['erasurecode.c', 'erasurecode_helpers.c', 'erasurecode_preprocessing.c', 'erasurecode_postprocessing.c',
               'utils/chksum/crc32.c', 'utils/chksum/alg_sig.c', 'backends/null/null.c', 'backends/xor/flat_xor_hd.c',
               'backends/jerasure/jerasure_rs_vand.c', 'backends/jerasure/jerasure_rs_cauchy.c',
               'backends/isa-l/isa_l_common.c', 'backends/isa-l/isa_l_rs_vand.c', 'backends/isa-l/isa_l_rs_cauchy.c',
               'backends/rs_vand/liberasurecode_rs_vand.c', 'builtin/rs_vand/rs_galois.c',
               'backends/shss/shss.c', 'backends/phazrio/libphazr.c']
PLUGINS = {
    'libXorcode.so.1': ['builtin/xor_codes/xor_code.c', 'builtin/xor_codes/xor_hd_code.c'],
    'liberasurecode_rs_vand.so.1': ['builtin/rs_vand/rs_galois.c', 'builtin/rs_vand/liberasurecode_rs_vand.c'],
    'libnullcode.so.1': ['builtin/null_code/null_code.c'],
}
INCLUDES = ['include/erasurecode', 'include/xor_codes', 'include/rs_vand', 'include/isa_l', 'include/shss', 'include/jerasure']


class BuildError(Exception):
    pass


def sh(cmd, **kw):
    return subprocess.run(cmd, stdout=subprocess.PIPE, stderr=subprocess.STDOUT, text=True, **kw)


def file_hash(paths, extra=''):
    h = hashlib.sha256(extra.encode())
    for p in sorted(paths):
        h.update(p.encode())
        try:
            with open(p, 'rb') as f:
                h.update(f.read())
        except OSError:
            h.update(b'<missing>')
    return h.hexdigest()[:16]


def tree_files(repo):
    out = []
    for top in ('src', 'include'):
        for d, _, fs in os.walk(os.path.join(repo, top)):
            for f in fs:
                if f.endswith(('.c', '.h', '.inc')):
                    out.append(os.path.join(d, f))
    return out


def parallel(cmds, jobs=JOBS):
    """run a list of (argv, cwd) in parallel; raise BuildError on the first failure"""
    def one(c):
        r = sh(c[0], cwd=c[1])
        return (c, r)
    with ThreadPoolExecutor(max_workers=jobs) as ex:
        for c, r in ex.map(one, cmds):
            if r.returncode != 0:
                raise BuildError('command failed: %s\n%s' % (' '.join(c[0]), r.stdout[-4000:]))


def config_dir(repo):
    """directory holding config_liberasurecode.h: the tree's (configure output) or verif's own"""
    if os.path.exists(os.path.join(repo, 'include', 'config_liberasurecode.h')):
        return os.path.join(repo, 'include')
    return os.path.join(VERIF, 'build', 'config')


def build_variant(repo, variant):
    spec = VARIANTS[variant]
    files = tree_files(repo)
    hsh = file_hash(files + [os.path.join(VERIF, 'refisal', 'refisal.c'), os.path.join(VERIF, 'harness', 'verif_hooks.c')],
                    RECIPE_VERSION + variant + ' '.join(spec['cflags']) + repo)
    out = os.path.join(CACHE, '%s-%s' % (variant, hsh))
    if os.path.exists(os.path.join(out, '.done')):
        os.utime(out)
        return out
    tmp = out + '.tmp%d' % os.getpid()
    shutil.rmtree(tmp, ignore_errors=True)
    os.makedirs(os.path.join(tmp, 'obj'))
    inc = sum((['-I', os.path.join(repo, i)] for i in INCLUDES), []) + ['-I', config_dir(repo)]
    base = [CC, '-std=c99', '-D_GNU_SOURCE=1', '-D' + GUARD, '-fPIC', '-Wno-everything'] + spec['cflags'] + inc
    cmds, objs = [], {}
    def obj_for(group, src):
        o = os.path.join(tmp, 'obj', group + '_' + src.replace('/', '_')[:-2] + '.o')
        cmds.append((base + ['-c', os.path.join(repo, 'src', src), '-o', o], tmp))
        return o
    objs['lib'] = [obj_for('lib', s) for s in LIB_SOURCES]
    for so, srcs in PLUGINS.items():
        objs[so] = [obj_for(so.split('.')[0], s) for s in srcs]
    hooks_o = os.path.join(tmp, 'obj', 'verif_hooks.o')
    cmds.append((base + ['-c', os.path.join(VERIF, 'harness', 'verif_hooks.c'), '-o', hooks_o], tmp))
    isal_o = os.path.join(tmp, 'obj', 'refisal.o')
    cmds.append(([CC, '-std=c99', '-fPIC', '-g', '-O1'] + [f for f in spec['cflags'] if f.startswith('-f')] +
                 ['-c', os.path.join(VERIF, 'refisal', 'refisal.c'), '-o', isal_o], tmp))
    parallel(cmds)
    link = []
    for so, _ in PLUGINS.items():
        link.append(([CC, '-shared', '-Wl,-soname,' + so] + spec['ldflags'] + objs[so] + ['-o', os.path.join(tmp, so), '-lpthread'], tmp))
    link.append(([CC, '-shared', '-Wl,-soname,libisal.so.2'] + spec['ldflags'] + [isal_o, '-o', os.path.join(tmp, 'libisal.so.2')], tmp))
    parallel(link)
    build_shims(tmp, spec['cflags'], spec['ldflags'])
    os.symlink('libXorcode.so.1', os.path.join(tmp, 'libXorcode.so'))
    r = sh([CC, '-shared', '-Wl,-soname,liberasurecode.so.1'] + spec['ldflags'] + objs['lib'] + [hooks_o] +
           ['-o', os.path.join(tmp, 'liberasurecode.so.1'), '-L', tmp, '-lXorcode', '-lpthread', '-lm', '-lz', '-ldl'], cwd=tmp)
    if r.returncode != 0:
        raise BuildError('link liberasurecode failed:\n' + r.stdout[-4000:])
    os.symlink('liberasurecode.so.1', os.path.join(tmp, 'liberasurecode.so'))
    open(os.path.join(tmp, '.done'), 'w').write(hsh)
    shutil.rmtree(out, ignore_errors=True)
    os.rename(tmp, out)
    prune_cache(variant)
    return out


SHIM_SYMS = {
    'rs': ['init_liberasurecode_rs_vand', 'deinit_liberasurecode_rs_vand', 'make_systematic_matrix', 'free_systematic_matrix',
           'liberasurecode_rs_vand_encode', 'liberasurecode_rs_vand_decode', 'liberasurecode_rs_vand_reconstruct'],
    'null': ['null_code_init', 'null_code_encode', 'null_code_decode', 'null_reconstruct', 'null_code_fragments_needed'],
    'isav': ['ec_encode_data', 'ec_init_tables', 'gf_gen_rs_matrix', 'gf_invert_matrix', 'gf_mul'],
    'isac': ['ec_encode_data', 'ec_init_tables', 'gf_gen_cauchy1_matrix', 'gf_invert_matrix', 'gf_mul'],
}


def build_shims(tmp, cflags, ldflags):
    """fault shims for C17: stand-in plugin handles that make the back end's OWN init fail at a chosen internal step -
    libshim_<be>_<j>.so exports only the first j symbols the init resolves (so the (j+1)-th dlsym fails); for rs,
    j == 7 exports all of them with make_systematic_matrix returning NULL (the matrix allocation failing)"""
    cmds = []
    for be, syms in SHIM_SYMS.items():
        for j in range(len(syms) + (1 if be == 'rs' else 0)):
            src = os.path.join(tmp, 'obj', 'shim_%s_%d.c' % (be, j))
            with open(src, 'w') as f:
                f.write('/* generated */\n')
                if be == 'rs':
                    # the functions an init error exit may legitimately call are forwarded to the REAL plugin (reference
                    # taken and released around the call), so that what such an exit does to process-wide state is real
                    f.write('#include <dlfcn.h>\n#include <stddef.h>\n'
                            'static void *real(const char *n, void **h) { *h = dlopen("liberasurecode_rs_vand.so.1", RTLD_NOW | RTLD_LOCAL); return *h ? dlsym(*h, n) : NULL; }\n')
                for name in syms[:j]:
                    if name == 'make_systematic_matrix':
                        if j == len(syms):
                            f.write('int *make_systematic_matrix(int k, int m) { (void)k; (void)m; return 0; }\n')
                        else:
                            f.write('int *make_systematic_matrix(int k, int m) { void *h; int *(*fn)(int, int) = (int *(*)(int, int))real("make_systematic_matrix", &h); int *r = fn ? fn(k, m) : 0; if (h) dlclose(h); return r; }\n')
                    elif be == 'rs' and j == len(syms) and name in ('init_liberasurecode_rs_vand', 'deinit_liberasurecode_rs_vand'):
                        # matrix-construction failure (an allocation failure in real life): table set-up and tear-down are
                        # both stand-ins here, so the pair stays balanced whichever way the exit handles it
                        f.write('void %s(void) { }\n' % name)
                    elif be == 'rs' and name == 'init_liberasurecode_rs_vand':
                        f.write('void init_liberasurecode_rs_vand(int k, int m) { void *h; void (*fn)(int, int) = (void (*)(int, int))real("init_liberasurecode_rs_vand", &h); if (fn) fn(k, m); if (h) dlclose(h); }\n')
                    elif be == 'rs' and name == 'deinit_liberasurecode_rs_vand':
                        f.write('void deinit_liberasurecode_rs_vand(void) { void *h; void (*fn)(void) = (void (*)(void))real("deinit_liberasurecode_rs_vand", &h); if (fn) fn(); if (h) dlclose(h); }\n')
                    elif be == 'rs' and name == 'free_systematic_matrix':
                        f.write('void free_systematic_matrix(int *m) { void *h; void (*fn)(int *) = (void (*)(int *))real("free_systematic_matrix", &h); if (fn) fn(m); if (h) dlclose(h); }\n')
                    else:
                        f.write('long %s(void) { return 0; }\n' % name)
            cmds.append(([CC, '-shared', '-fPIC', '-O1'] + [x for x in cflags if x.startswith('-fsanitize') or x.startswith('-fno-sanitize')] + ldflags +
                         [src, '-o', os.path.join(tmp, 'libshim_%s_%d.so' % (be, j))], tmp))
    parallel(cmds)


def prune_cache(variant):
    dirs = sorted(glob.glob(os.path.join(CACHE, variant + '-????????????????')), key=os.path.getmtime, reverse=True)
    for d in dirs[4:]:
        if time.time() - os.path.getmtime(d) > 3600:      # never under a concurrent run that may still be using it
            shutil.rmtree(d, ignore_errors=True)
    for d in glob.glob(os.path.join(CACHE, '*.tmp*')):
        if time.time() - os.path.getmtime(d) > 3600:
            shutil.rmtree(d, ignore_errors=True)


def abi_probe(repo, c07_only=False, skip_c07=False):
    inc = sum((['-I', os.path.join(repo, i)] for i in INCLUDES), []) + ['-I', config_dir(repo)]
    flags = []
    if c07_only:
        flags.append('-DABI_PROBE_ONLY_C07')
    if skip_c07:
        flags.append('-DABI_PROBE_SKIP_C07')
    r = sh([CC, '-std=gnu11', '-D_GNU_SOURCE=1', '-D' + GUARD, '-fsyntax-only', '-Wno-everything'] + flags + inc + [os.path.join(VERIF, 'harness', 'abi_probe.c')])
    return r.returncode == 0, r.stdout


HARNESS_DEPS = ['harness/api.hpp', 'harness/fw.hpp', 'harness/lib.hpp', 'ref/ref.hpp', 'ref/xor_golden.inc']


def harness_object(name, variant):
    """compile harness/<name>.cpp once per (source hash, flag set); independent of the repo tree"""
    src = os.path.join(VERIF, 'harness', name + '.cpp')
    flags = HARNESS_FLAGS[variant]
    deps = [os.path.join(VERIF, d) for d in HARNESS_DEPS] + [src] + sorted(glob.glob(os.path.join(VERIF, 'harness', '*.hpp')))
    hsh = file_hash(deps, RECIPE_VERSION + ' '.join(flags))
    d = os.path.join(CACHE, 'harness')
    os.makedirs(d, exist_ok=True)
    obj = os.path.join(d, '%s-%s-%s.o' % (name, 'tsan' if variant == 'tsan' else ('fuzz' if variant == 'fuzz' else 'asan'), hsh))
    if not os.path.exists(obj):
        for old in glob.glob(os.path.join(d, '%s-%s-*.o' % (name, 'tsan' if variant == 'tsan' else ('fuzz' if variant == 'fuzz' else 'asan')))):
            try:
                os.unlink(old)
            except OSError:
                pass
        tmp = obj + '.tmp%d' % os.getpid()
        r = sh([CXX] + flags + ['-I', os.path.join(VERIF, 'harness'), '-I', VERIF, '-c', src, '-o', tmp])
        if r.returncode != 0:
            raise BuildError('harness %s failed to compile:\n%s' % (name, r.stdout[-6000:]))
        os.rename(tmp, obj)
    return obj


def link_harness(name, variant, vdir, extra_libs=()):
    obj = harness_object(name, variant)
    exe = os.path.join(vdir, name)
    stamp = exe + '.stamp'
    extra_objs = []
    if name == 'h_codec':
        # allocation fault shim: plain C without sanitizer instrumentation (see harness/allocfault.c)
        src = os.path.join(VERIF, 'harness', 'allocfault.c')
        aobj = os.path.join(CACHE, 'harness', 'allocfault-%s.o' % file_hash([src], RECIPE_VERSION))
        if not os.path.exists(aobj):
            tmp = aobj + '.tmp%d' % os.getpid()
            r = sh([CC, '-O1', '-g', '-fno-omit-frame-pointer', '-c', src, '-o', tmp])
            if r.returncode != 0:
                raise BuildError('allocfault.c failed to compile:\n' + r.stdout[-3000:])
            os.rename(tmp, aobj)
        extra_objs.append(aobj)
    stamp_want = obj + ''.join(extra_objs)
    if os.path.exists(exe) and os.path.exists(stamp) and open(stamp).read() == stamp_want:
        return exe
    ld = VARIANTS[variant]['ldflags']
    fuzz = ['-fsanitize=fuzzer'] if name.startswith('fuzz_') else []
    r = sh([CXX] + ld + fuzz + [obj] + extra_objs + ['-o', exe + '.tmp', '-L', vdir, '-lerasurecode', '-lXorcode', '-Wl,-rpath,' + vdir,
            '-lrapidcheck', '-ldl', '-lpthread', '-lz'] + list(extra_libs))
    if r.returncode != 0:
        raise BuildError('link %s failed:\n%s' % (name, r.stdout[-4000:]))
    os.rename(exe + '.tmp', exe)
    open(stamp, 'w').write(stamp_want)
    return exe


def run_env(vdir, mode=''):
    env = dict(os.environ)
    env.pop('LIBERASURECODE_WRITE_LEGACY_CRC', None)
    env['LD_LIBRARY_PATH'] = vdir
    env['ASAN_OPTIONS'] = 'detect_odr_violation=0:abort_on_error=0:exitcode=99:detect_leaks=1:allocator_may_return_null=1:handle_abort=1:detect_stack_use_after_return=0'
    if os.environ.get('VERIF_ASAN_EXTRA'):
        env['ASAN_OPTIONS'] += ':' + os.environ['VERIF_ASAN_EXTRA']
    if mode.endswith('_noq'):
        # modes run with the sanitizer's quarantine switched off: freed blocks are handed out again at once, as a plain
        # allocator does, so that address re-use (a stale pointer or handle comparing equal to a new object) happens
        env['ASAN_OPTIONS'] += ':quarantine_size_mb=0:thread_local_quarantine_size_kb=0'
    env['UBSAN_OPTIONS'] = 'print_stacktrace=1:halt_on_error=1:exitcode=99'
    env['LSAN_OPTIONS'] = 'exitcode=99:print_suppressions=0'
    env['TSAN_OPTIONS'] = 'exitcode=99:halt_on_error=0:second_deadlock_stack=1'
    env['VERIF_FAILDIR'] = FAILDIR
    return env


# ----------------------------------------------------------------------------------------------
# check plans: per property a function (tier, seed) -> list of jobs
# job = dict(harness=, variant=, mode=, args=[...], n=, size=, label=)

def rc_jobs(harness, mode, procs, n, size=100, variant='asan', extra=()):
    return [dict(harness=harness, variant=variant, mode=mode, n=n, size=size, sub=i, args=list(extra)) for i in range(procs)]


def fuzz_jobs(harness, prop, procs, seconds, runs=0):
    return [dict(harness=harness, variant='fuzz', mode='fuzz', fuzz=True, fuzz_prop=prop, seconds=seconds, runs=runs, sub=i,
                 timeout=seconds + 300) for i in range(procs)]


def with_timeout(jobs, t):
    for j in jobs:
        j['timeout'] = t
    return jobs


def sweep_jobs(harness, mode, shards, variant='asan', extra=()):
    return [dict(harness=harness, variant=variant, mode=mode, shard=(i, shards), sub=i, args=list(extra)) for i in range(shards)]


def plan(pid, tier):
    q = tier == 'quick'
    P = {}
    P['C01'] = lambda: (rc_jobs('h_codec', 'c01', 12, 3000 if q else 40000) + rc_jobs('h_codec', 'c01', 2, 300 if q else 6000, variant='asan-nosse')
                        + sweep_jobs('h_codec', 'c01_xor_sweep', 2 if q else 4) + sweep_jobs('h_codec', 'c01_rs_sweep', 1)
                        + sweep_jobs('h_codec', 'c01_isa_sweep', 1) + sweep_jobs('h_codec', 'c01_large', 3) + sweep_jobs('h_codec', 'c01_mt', 2))
    P['C02'] = lambda: (rc_jobs('h_codec', 'c02', 10, 800 if q else 30000) + sweep_jobs('h_codec', 'c02_subsets', 4 if q else 8)
                        + sweep_jobs('h_codec', 'c02_band', 2 if q else 6) + sweep_jobs('h_codec', 'c02_large', 3) + sweep_jobs('h_codec', 'c02_allocfail', 1))
    P['C03'] = lambda: (rc_jobs('h_codec', 'c03', 12, 3000 if q else 40000) + sweep_jobs('h_codec', 'c03_xor_sweep', 3 if q else 12)
                        + sweep_jobs('h_codec', 'c03_rs_sweep', 1) + sweep_jobs('h_codec', 'c03_large', 3))
    P['C04'] = lambda: (sweep_jobs('h_format', 'selftest', 1) + sweep_jobs('h_format', 'c04_matrix', 12) + rc_jobs('h_format', 'c04_parity', 4, 2500 if q else 30000) + sweep_jobs('h_format', 'c04_blocking', 4 if q else 8)
                        + rc_jobs('h_format', 'c04_parity_mt', 3, 120 if q else 2500))
    P['C05'] = lambda: (sweep_jobs('h_format', 'selftest', 1) + sweep_jobs('h_format', 'c05_tables', 1) + sweep_jobs('h_format', 'c05_encode', 2) + sweep_jobs('h_format', 'c05_encode', 1, variant='asan-nosse')
                        + sweep_jobs('h_format', 'c05_unsupported', 1) + sweep_jobs('h_format', 'c05_direct', 3) + sweep_jobs('h_format', 'c05_direct', 1, variant='asan-nosse')
                        + sweep_jobs('h_codec', 'c05_decode_sweep', 6 if q else 8) + sweep_jobs('h_codec', 'c05_decode_sweep', 4 if q else 8, variant='asan-nosse') + sweep_jobs('h_codec', 'c05_mt', 2 if q else 4)
                        + sweep_jobs('h_codec', 'c05_large', 4) + sweep_jobs('h_codec', 'c05_large', 2, variant='asan-nosse')
                        + sweep_jobs('h_codec', 'c05_allocfail', 2) + sweep_jobs('h_codec', 'c05_allocfail', 1, variant='asan-nosse'))
    P['C07'] = lambda: (sweep_jobs('h_format', 'selftest', 1) + rc_jobs('h_format', 'c07', 12, 6000 if q else 60000) + sweep_jobs('h_format', 'c07_sweep', 4))
    P['C08'] = lambda: (rc_jobs('h_format', 'c08', 10, 8000 if q else 80000) + sweep_jobs('h_format', 'c08_sweep', 6) + sweep_jobs('h_sched', 'c08_sched', 4))
    P['C06'] = lambda: (rc_jobs('h_needed', 'c06', 8, 6000 if q else 80000) + sweep_jobs('h_needed', 'c06_xor_sweep', 4) + sweep_jobs('h_needed', 'c06_rs_sweep', 4 if q else 12))
    P['C09'] = lambda: (rc_jobs('h_header', 'c09', 12, 2500 if q else 60000) + sweep_jobs('h_header', 'c09_sweep', 4) + ([] if q else fuzz_jobs('fuzz_header', 'C09', 8, 240)))
    P['C10'] = lambda: (sweep_jobs('h_format', 'selftest', 1) + rc_jobs('h_header', 'c10', 10, 10000 if q else 100000) + sweep_jobs('h_header', 'c10_sweep', 2) + rc_jobs('h_header', 'c10_alt', 2, 5000 if q else 100000))
    P['C11'] = lambda: rc_jobs('h_header', 'c11', 16, 8000 if q else 80000) + ([] if q else fuzz_jobs('fuzz_header', 'C11', 4, 180))
    P['C12'] = lambda: rc_jobs('h_header', 'c12', 16, 8000 if q else 80000) + ([] if q else fuzz_jobs('fuzz_header', 'C12', 6, 240))
    P['C13'] = lambda: (sweep_jobs('h_args', 'c13_grid', 4) + rc_jobs('h_args', 'c13_grid_rc', 2, 1500 if q else 30000)
                        + sweep_jobs('h_args', 'c13_box', 6 if q else 16) + rc_jobs('h_args', 'c13_box_rc', 4, 3000 if q else 60000))
    P['C14'] = lambda: (rc_jobs('h_state', 'c14', 8, 400 if q else 6000) + rc_jobs('h_state', 'c14_noq', 4, 400 if q else 6000) + sweep_jobs('h_sched', 'c14_sched', 4) + sweep_jobs('h_state', 'c14_exhaustive', 8) + ([] if q else fuzz_jobs('fuzz_api', 'C14', 6, 240)))
    P['C15'] = lambda: rc_jobs('h_state', 'c15', 12, 2500 if q else 40000) + sweep_jobs('h_state', 'c15_guard_sweep', 4 if q else 12) + sweep_jobs('h_codec', 'c15_mt', 3)
    P['C16'] = lambda: (rc_jobs('h_state', 'c16', 12, 1200 if q else 20000) + rc_jobs('h_state', 'c16_noq', 2, 1200 if q else 20000) + sweep_jobs('h_state', 'c16_pairs', 2) + ([] if q else fuzz_jobs('fuzz_api', 'C16', 8, 300)))
    P['C17'] = lambda: (sweep_jobs('h_fault', 'c17_single', 6) + rc_jobs('h_fault', 'c17', 10, 400 if q else 6000) + sweep_jobs('h_sched', 'c17_sched', 4))
    P['C19'] = lambda: (rc_jobs('h_codec', 'c19', 6, 1500 if q else 30000) + sweep_jobs('h_codec', 'c19_sweep', 6 if q else 12) + rc_jobs('h_codec', 'c19_inv', 3, 800 if q else 10000) + sweep_jobs('h_codec', 'c19_singular', 3 if q else 8)
                        + sweep_jobs('h_needed', 'c06_rs_sweep', 2 if q else 8, extra=['--only_isa', '1']) + sweep_jobs('h_codec', 'c19_mt', 4))
    P['C18'] = lambda: with_timeout(rc_jobs('t_race', 'c18_tsan', 8, 300 if q else 6000, variant='tsan') + sweep_jobs('h_sched', 'c18_sched_exhaustive', 6 if q else 12)
                        + rc_jobs('h_sched', 'c18_sched', 4, 600 if q else 20000), 240 if q else 3600)
    P['C20'] = lambda: rc_jobs('h_codec', 'c20', 16, 5000 if q else 60000) + sweep_jobs('h_codec', 'c20_allocfail', 1)
    if pid not in P:
        return None
    return P[pid]()


RULES = {
    'C01': 'rapidcheck-generated (backend, shape, w, checksum type, length, content, erasure set within tolerance, permutation, duplicates, per-buffer alignment, force flag) plus sweeps (all 38 XOR tables x all erasure sets below hd; every RS/ISA-L shape once with |E|=m; MiB-sized payloads; ten shapes decoded and rebuilt by two threads while two others create and destroy instances of the same shape). Non-trivial: at least one DATA fragment erased and content not constant. Distinct: 64-bit hash of the canonical case text.',
    'C02': '(also: for RS / ISA-L shapes, decode and rebuild with each aligned allocation made during the call failing in turn - rc <= 0, and 0 only with exact bytes) rapidcheck-generated sub-multisets of one stripe incl. beyond tolerance, with decode and reconstruct; sweeps: all 2^n subsets of small codes, all flat-XOR erasure sets of size hd..hd+1 (quick) / hd..m+1 (thorough). Non-trivial: set outside tolerance or unrecoverable by the rank oracle.',
    'C03': 'rapidcheck-generated (configuration, data, erasure set within tolerance, destinations lost/present/out of range) plus sweeps (XOR all |E|<hd x lost destinations; RS every shape |E|=m). Non-trivial: >=2 lost and destination lost, or XOR with >=2 lost.',
    'C04': 'enumerated: all 496 shapes k>=1,m>=1,k+m<=32 - make_systematic_matrix(k,m) entry by entry against L_j(r)/L_j(k) over an independent GF(2^16) (0x1100b), then k-subsets of the library matrix rows inverted (exhaustive up to n=12 quick / n=16 thorough, random subsets above); generated: (k,m,block size,content) -> parity payload bytes from liberasurecode_encode vs closed form on host-order 16-bit words, first parity == XOR of data; the same comparison with 2-6 threads encoding different data at once through own or shared instances (payloads mostly above 1 KiB); one generated case in five plus an enumerated sweep put the fragment payload on a cache-blocking boundary ((2^a / streams) rounded down to 16 or 64 bytes, times 1..3; streams in 1, 2, k, k+1, m, k+m; up to 2 MiB of data). Non-trivial: k>=2 (matrix) / k>=2 and two distinct non-zero words (parity).',
    'C05': 'enumerated: 38 tables x (library bitmaps vs golden equations in both directions, minimum distance by GF(2) rank over all erasure sets <= hd, encode with one non-zero data fragment at a time and with random data for payload sizes 4..4100, every erasure set below hd decoded and reconstructed, SSE2 and portable builds), and every (k,m,hd) in 0..33 x 0..8 x 0..7 outside the 38 refused; per table a multi-threaded run (2 decoders with 2..hd-1 erasures on one instance while 2 threads create and destroy instances of the same shape); fragment payloads around powers of two from 64 KiB to 2 MiB (4 MiB thorough) with a data fragment lost, both build flavours; the decode sweep alternates heap inputs and read-only guarded inputs; fault dimension: per table up to four two-parity-path triples plus two other sets, decode and every rebuild, with each aligned allocation (posix_memalign) made during the call failing in turn - the call must return a negative code (never a positive one, never 0 with wrong bytes) and the next call must be exact. Non-trivial: >=2 erasures or a parity rebuilt (decode sweep); every table/encode case.',
    'C07': 'rapidcheck-generated (backend incl. null, shape, w, checksum type incl. MD5, legacy-CRC env, length, content) + one case per shape per backend: every byte of every fragment vs an independent serializer (literal offsets, independent GF and CRC models). Non-trivial: CRC32, length not a multiple of k*wordsize, non-constant data.',
    'C08': 'rapidcheck-generated (backend incl. null, shape, length to 2^20) + dense sweep of all lengths 0..4*k*ws+2 for 40+ configurations: the three size queries vs arithmetic and vs what encode produced; dead/never-issued/negative descriptors refused - also at every instant of a concurrent create/use/destroy (controlled scheduler, all schedules with <= 2 preemptions: a second thread queries descriptors 0, negatives and the top of the range). Non-trivial: length not a multiple of k*wordsize (queries) / at least one context switch inside the library (schedules).',
    'C06': 'enumerated: all 38 flat-XOR tables x all disjoint (R non-empty, X) with |R|+|X|<hd in both list orders; RS n<=8 (quick) / n<=12 (thorough) and ISA-L n<=6/10 x all (R,X) with |R|+|X|<=m; rapidcheck-generated pairs for larger shapes incl. beyond tolerance. Oracle on the returned list (n-int output buffer behind an ASan red zone): termination, range, distinctness, disjointness, sufficiency (RS/ISA: exactly k and reconstruct from only those fragments reproduces each requested fragment; XOR: GF(2) span + XOR of the actual payloads). Beyond tolerance: error or a list passing the same test. Non-trivial: X hits the unconstrained answer, or |R|>=2.',
    'C09': 'base headers from real fragments over all back ends/checksum types/legacy or standard metadata CRC; mutation programs (bit flips, byte sets, multi-byte edits, version and magic rewrites, field-wise endianness conversion) followed by one of 7 re-seal variants; sweep: all 640 single-bit flips with and without re-seal for 40 base headers. Oracle: independent accept predicate for header validation, the metadata query, decode and reconstruct (-EBADHEADER exactly when unacceptable); bytes unchanged. Non-trivial: header changed and (reference rejects, or re-sealed, or version/magic/endianness touched).',
    'C10': 'CRC32 configurations x writer env value x reader env value x source (encode or reconstruct) x payload corruption (single bit, burst, byte, stored-field rewrites re-sealed); sweep: every single-bit flip of payloads of 2..64 bytes; plus liberasurecode_crc32_alt vs a bit-serial model on generated buffers. Non-trivial: payload contains a byte >= 0x80 and a corruption was applied.',
    'C11': 'fragment from encode (all back ends, both checksum types), optional asymmetric overwrite of fields that read the same both ways, optional payload bit flip, writer and reader values of the legacy-CRC switch; twin = field-wise byte-swapped header with swapped CRC. Oracle: metadata(twin) == metadata(native) field by field, equal return codes and header verdicts. Non-trivial: CRC32 fragment with corrupted payload.',
    'C12': 'validator instance x producer instance (same, other shape, other back end) x fragment x one edit (index boundary values, back-end id 0..255, back-end version, library version, opposite-endian twin, payload bit, stale CRC, stored mismatch flag), re-sealed where the field comparison must decide. Oracle: independent validity predicate for is_invalid_fragment and for verify_stripe_metadata. Non-trivial: re-sealed single-field edit.',
    'C13': 'argument grid: 16 public entry points x every argument position x {valid, NULL, destroyed / never-issued / -1 / 0 / INT_MAX / INT_MIN descriptor, fragment counts INT_MIN,-1,0,k-1, fragment lengths 0,1,79, destinations -1,k+m,INT_MAX,INT_MIN, back-end ids 9,100,INT_MAX,-1}: all single substitutions, all combinations of >=2 NULL pointers (also with a dead descriptor), never-issued descriptor x every other bad value, on 4 configurations, plus generated combinations; LeakSanitizer recoverable check after every case. Configuration box: back-end id 0..8 x k,m in -1..33 x hd 0..7 x w in {-1,0,4,7,8,16,32,64} (columns + boundary sample in quick, full in thorough) plus generated points: unsupported shape -> refused by every back end; anything accepted must survive encode(0,1,min+1)/decode complete and with tolerance-many erasures/reconstruct/size queries/fragments_needed/destroy. Non-trivial: bad argument not in first position or combined (grid); within 1 of an acceptance boundary (box).',
    'C14': 'histories over <=4 slots of create (5 back ends, many shapes), failing create (7 kinds), destroy, destroy of dead descriptors, use (encode/decode/reconstruct vs reference), probe of 12 entry points with a dead descriptor, and presets of the exported descriptor counter to INT_MAX-3..INT_MAX; after EVERY step a behavioural scan of the registry (size query on every descriptor ever seen +-2, 1..8 and INT_MAX-8..INT_MAX after a preset) must equal the model and every live instance must round-trip; plus all sequences over a 12-symbol alphabet to depth 5 (quick) / 6 (thorough). Non-trivial: two live instances of one back end at some point and a non-LIFO destroy or a counter wrap.',
    'C15': 'histories mixing encode/decode/reconstruct/metadata/validation/failing calls/other instances/encode on a fresh thread; at the end every kept stripe is decoded, reconstructed and re-encoded with all inputs (data, every fragment, the pointer array) on PROT_READ pages flush against PROT_NONE pages (end- or start-flush, aligned and unaligned); every encode output must equal the independent serializer (a pure function of configuration and data); plus a sweep under guard pages: every flat-XOR table x every erasure set below hd (decode + reconstruct of each lost index; aligned inputs ending exactly at the guard page, start-flush, and unaligned) and every RS/ISA-L shape with |E|=m. Non-trivial: same (configuration, data) encoded at two points of the history and a rebuild happened.',
    'C16': 'histories (<=300 steps) mixing valid calls with cleanup, beyond-tolerance/duplicated/insufficient sets, damaged headers, invalid arguments, failing creates and dead-descriptor probes; ASan reports double free / use-after-free at once, LeakSanitizer recoverable check after destroying all instances at the end of each history; plus one encode/decode/cleanup/destroy + leak check per shape. Non-trivial: at least one failing call and one successful rebuild in the history.',
    'C17': 'fault enumeration: the back end operation tables are patched with wrappers that fail chosen call numbers (three modes: fail before the work, do the work then report failure, another negative code); for init additionally the OWN init of the back end is run against stand-in plugin handles that make one of its internal steps fail (the j-th symbol lookup, or the RS generator-matrix construction returning NULL), so its own error exits execute. Enumerated: a scripted workload (create, 3 encodes, decode with lost data / lost parity, reconstruct data / parity, 2 fragments_needed, second create, destroy, encode, decode, three naturally failing flat-XOR rebuilds with hd..hd+1 fragments lost) per back end x every call position of init/encode/decode/reconstruct/fragments_needed x 3 modes; generated: random workloads with random fault sets. Oracle: public rc<0 for the faulted call, no cleanup call made and LeakSanitizer clean, immediate retry succeeds with exact results, registry usable, plugin dlopen reference returned. Non-trivial: at least one injected fault was reached.',
    'C19': 'both ISA-L adapters on the clean-room libisal.so.2: enumerated - every (k,m) with k+m<=8 (quick) / 12 (thorough), every erasure set |E|<=m+1, decode + reconstruct of every lost index and one present index, two table encodings of the stand-in (adapter must treat tables as opaque); generated - all shapes to k+m=32 with permutations/duplicates/alignment; injected inversion failures (the stand-in fails the next gf_invert_matrix call): public call must fail, LeakSanitizer clean, retry exact; fragments_needed for the adapters with the C06 oracle. Oracle: exact when the first k surviving generator rows are invertible over GF(2^8) (independent model), error when the survivors have rank < k, either when only another subset is invertible. Non-trivial: a data fragment erased or a lost destination rebuilt; an inversion failure actually injected.',
    'C18': 'tier 1 (ThreadSanitizer): generated workloads of 2..16 threads released by a barrier, each thread running its own create/use/destroy cycles of mixed back ends (concurrent first-ever RS creates are generated on purpose), held instances, and encode/decode/reconstruct/queries on 0..2 shared descriptors, with generated yield paddings; oracle: no TSan report during the workload, every result equals the sequential reference (independent serializer / original data), descriptors of overlapping lifetimes distinct, shared instances intact afterwards. tier 2 (controlled schedules under ASan, guarded yield hooks): see per_mode c18_sched*. Non-trivial: >=2 threads with at least one operation each.',
    'C20': 'rapidcheck-generated (configuration with CRC32, data, presented multiset, damaged subset: payload bit flips, re-sealed header field edits, unsealed header damage), decode with force=1; plus a sweep with allocation faults during the forced decode of stripes containing damaged fragments (every aligned allocation in turn, and the first plain allocation: rc <= 0, and 0 only with the original bytes). Non-trivial: at least one damaged DATA fragment.',
}
LEVELS = {'C17': 'fault_enumeration'}


def load_known():
    p = os.path.join(VERIF, 'known_findings.json')
    if not os.path.exists(p):
        return []
    return json.load(open(p))


def run_job(job, vdirs, seed, tier, rundir, pid, exclude):
    vdir = vdirs[job['variant']]
    exe = os.path.join(vdir, job['harness'])
    sub = job.get('sub', 0)
    label = '%s-%s-%s-%d' % (job['harness'], job['mode'], job['variant'], sub)
    out = os.path.join(rundir, label + '.json')
    if job.get('fuzz'):
        return run_fuzz_job(job, vdir, exe, seed, rundir, pid, label)
    argv = [exe, '--prop', pid, '--mode', job['mode'], '--tier', tier, '--out', out, '--seed', str(seed * 1000 + sub + 1)]
    if 'n' in job:
        argv += ['--n', str(job['n']), '--size', str(job.get('size', 100))]
    if 'shard' in job:
        argv += ['--shard', '%d/%d' % job['shard']]
    if exclude:
        argv += ['--exclude', ','.join(exclude)]
    argv += job.get('args', [])
    t0 = time.time()
    log = open(os.path.join(rundir, label + '.log'), 'w')
    try:
        r = subprocess.run(argv, stdout=subprocess.PIPE, stderr=log, text=True, env=run_env(vdir, job['mode']), cwd=VERIF,
                           timeout=job.get('timeout', 7200 if tier == 'thorough' else 900))
        rc, stdout = r.returncode, r.stdout
        timed_out = False
    except subprocess.TimeoutExpired as e:
        rc, stdout, timed_out = -1, (e.stdout or b'').decode() if isinstance(e.stdout, bytes) else (e.stdout or ''), True
    log.close()
    return dict(job=job, label=label, rc=rc, stdout=stdout, out=out, wall=time.time() - t0, timed_out=timed_out, argv=argv)


def run_fuzz_job(job, vdir, exe, seed, rundir, pid, label):
    """one libFuzzer process: fresh corpus seeded from corpus/<target>/, bounded by -max_total_time (and -runs);
    only crash-/leak- artefacts and FAIL lines count, slow-unit/timeout/oom are load noise"""
    sub = job.get('sub', 0)
    corpus = os.path.join(rundir, label + '-corpus')
    os.makedirs(corpus, exist_ok=True)
    seeds = os.path.join(VERIF, 'corpus', job['harness'])
    argv = [exe, '-seed=%d' % (seed * 1000 + sub + 1), '-max_total_time=%d' % job['seconds'], '-print_final_stats=1', '-max_len=512',
            '-timeout=60', '-rss_limit_mb=4096', '-artifact_prefix=' + os.path.join(rundir, label + '-'), corpus]
    if job.get('runs'):
        argv.insert(1, '-runs=%d' % job['runs'])
    if os.path.isdir(seeds):
        argv.append(seeds)
    env = run_env(vdir)
    env['VERIF_FUZZ_PROP'] = job['fuzz_prop']
    env['ASAN_OPTIONS'] += ':handle_segv=1'
    t0 = time.time()
    logp = os.path.join(rundir, label + '.log')
    timed_out = False
    with open(logp, 'w') as log:
        try:
            r = subprocess.run(argv, stdout=subprocess.PIPE, stderr=log, text=True, env=env, cwd=VERIF, timeout=job['timeout'])
            rc, stdout = r.returncode, r.stdout
        except subprocess.TimeoutExpired as e:
            rc, stdout, timed_out = -1, '', True
    execs = 0
    for line in open(logp, errors='replace'):
        m = re.match(r'stat::number_of_executed_units:\s+(\d+)', line)
        if m:
            execs = int(m.group(1))
    arts = [a for a in glob.glob(os.path.join(rundir, label + '-*')) if re.search(r'-(crash|leak)-[0-9a-f]+$', a)]
    st = dict(prop=pid, mode='fuzz:' + job['harness'], evaluations=execs, nontrivial=0, skipped=0, failures=0, shrink_evals=0, exhaustive=False,
              hist={'fuzz_executions': execs}, extra={}, samples=[], fail_files=[], notes=[])
    if arts and 'FAIL property=' not in stdout:
        st['notes'].append('%s: libFuzzer artefact without an oracle failure (memory error): %s' % (label, ', '.join(os.path.basename(a) for a in arts)))
    out = os.path.join(rundir, label + '.json')
    json.dump(st, open(out, 'w'))
    # an artefact without FAIL line = sanitizer crash inside the target: not replayable through the text
    # harness, report it as abnormal so the run is not silently green
    if arts and 'FAIL property=' not in stdout:
        rc = 98
    elif rc not in (0, 1) and 'FAIL property=' in stdout:
        rc = 1
    elif not arts and not timed_out:
        rc = 0
    return dict(job=job, label=label, rc=rc, stdout=stdout, out=out, wall=time.time() - t0, timed_out=timed_out, argv=argv)


def replay_case(pid, path, vdirs, times=3):
    """replay a case file in a fresh process; returns number of failing replays"""
    txt = open(path).read()
    m = re.search(r'mode=(\S+)', txt)
    mode = m.group(1) if m else ''
    harness, variant = MODE_HARNESS.get(mode, (None, None))
    if harness is None:
        return -1
    vdir = vdirs.get(variant) or vdirs[next(iter(vdirs))]
    exe = os.path.join(vdir, harness)
    fails = 0
    for _ in range(times):
        try:
            r = subprocess.run([exe, '--prop', pid, '--replay', path], stdout=subprocess.PIPE, stderr=subprocess.PIPE, text=True,
                               env=run_env(vdir, mode), cwd=VERIF, timeout=90)
            if r.returncode != 0:
                fails += 1
        except subprocess.TimeoutExpired:
            fails += 1      # a hang while replaying an already failing case counts as a failing replay
    return fails


# mode -> (harness, default variant) for replay
MODE_HARNESS = {}
for _m in ['c09', 'c09_sweep', 'c10', 'c10_sweep', 'c10_alt', 'c11', 'c12']:
    MODE_HARNESS[_m] = ('h_header', 'asan')
for _m in ['c06', 'c06_xor_sweep', 'c06_rs_sweep']:
    MODE_HARNESS[_m] = ('h_needed', 'asan')
for _m in ['c13_grid', 'c13_grid_rc', 'c13_box', 'c13_box_rc']:
    MODE_HARNESS[_m] = ('h_args', 'asan')
for _m in ['c14', 'c14_noq', 'c14_exhaustive', 'c15', 'c15_guard_sweep', 'c16', 'c16_noq', 'c16_pairs']:
    MODE_HARNESS[_m] = ('h_state', 'asan')
for _m in ['c17', 'c17_single']:
    MODE_HARNESS[_m] = ('h_fault', 'asan')
MODE_HARNESS['c18_tsan'] = ('t_race', 'tsan')
MODE_HARNESS['c18_sched'] = ('h_sched', 'asan')
MODE_HARNESS['c18_sched_exhaustive'] = ('h_sched', 'asan')
MODE_HARNESS['c08_sched'] = ('h_sched', 'asan')
MODE_HARNESS['c14_sched'] = ('h_sched', 'asan')
MODE_HARNESS['c17_sched'] = ('h_sched', 'asan')
for _m in ['c07', 'c07_sweep', 'c08', 'c08_sweep', 'c04_matrix', 'c04_parity', 'c04_parity_mt', 'c04_blocking', 'c05_direct', 'selftest', 'c05_tables', 'c05_encode', 'c05_unsupported']:
    MODE_HARNESS[_m] = ('h_format', 'asan')
for _m in ['c01_large', 'c02_large', 'c03_large', 'c05_large', 'c05_allocfail', 'c02_allocfail', 'c20_allocfail', 'c05_mt', 'c01_mt', 'c19_mt', 'c15_mt', 'c19', 'c19_sweep', 'c19_inv', 'c19_singular', 'c05_decode_sweep', 'c01', 'c01_xor_sweep', 'c01_rs_sweep', 'c01_isa_sweep', 'c02', 'c02_subsets', 'c02_band', 'c03', 'c03_xor_sweep', 'c03_rs_sweep', 'c20']:
    MODE_HARNESS[_m] = ('h_codec', 'asan')


def prepare(pid, tier, need_variants, need_harness):
    ok, msg = abi_probe(REPO, skip_c07=True)
    if not ok:
        raise BuildError('ABI probe failed (public API layout differs from harness/api.hpp):\n' + msg[-3000:])
    vdirs = {}
    for v in sorted(need_variants):
        vdirs[v] = build_variant(REPO, v)
    todo = [(h, v) for (h, v) in sorted(need_harness)]
    uniq = {}
    for h, v in todo:
        uniq.setdefault((h, v if v in ('tsan', 'fuzz') else 'asan'), (h, v))
    with ThreadPoolExecutor(max_workers=JOBS) as ex:
        list(ex.map(lambda hv: harness_object(hv[0], hv[1]), list(uniq.values())))
    for h, v in todo:
        link_harness(h, v, vdirs[v])
    return vdirs


def write_evidence(pid, tier, seed, level, cov, wall, violations, assumptions):
    if os.path.realpath(REPO) != '/repo':
        # sensitivity runs against a scratch tree must not overwrite the evidence of the real tree
        d = os.path.join(RUN, 'evidence-scratch')
        os.makedirs(d, exist_ok=True)
        json.dump(dict(property_id=pid, tier=tier, seed=seed, level=level, coverage=cov, wall_s=round(wall, 2), violations=violations, repo=REPO),
                  open(os.path.join(d, pid + '.json'), 'w'), indent=1)
        return
    os.makedirs(os.path.join(VERIF, 'evidence'), exist_ok=True)
    ev = dict(property_id=pid, tier=tier, seed=seed, level=level, coverage=cov, assumptions=assumptions, wall_s=round(wall, 2), violations=violations)
    tmp = os.path.join(VERIF, 'evidence', pid + '.json.tmp')
    json.dump(ev, open(tmp, 'w'), indent=1)
    os.rename(tmp, os.path.join(VERIF, 'evidence', pid + '.json'))


def main_check(pid, tier, seed):
    t0 = time.time()
    jobs = plan(pid, tier)
    if jobs is None:
        print('unknown property', pid)
        return 2
    known = [k for k in load_known() if k.get('property') == pid]
    open_known = [k for k in known if k.get('status') == 'open']
    exclude = [k['id'] for k in open_known]
    rundir = os.path.join(RUN, pid)
    shutil.rmtree(rundir, ignore_errors=True)
    os.makedirs(rundir)
    os.makedirs(FAILDIR, exist_ok=True)
    for old_f in glob.glob(os.path.join(FAILDIR, pid + '-*.case')):
        os.unlink(old_f)
    try:
        vdirs = prepare(pid, tier, {j['variant'] for j in jobs}, {(j['harness'], j['variant']) for j in jobs})
    except BuildError as e:
        print('BUILD-ERROR', str(e)[:6000])
        write_evidence(pid, tier, seed, LEVELS.get(pid, 'exploration'),
                       dict(evaluations=0, distinct_nontrivial=0, rule=RULES.get(pid, ''), samples=[], inconclusive=['build error: ' + str(e)[:500]]),
                       time.time() - t0, 0, [])
        return 2
    results = []
    with ThreadPoolExecutor(max_workers=JOBS) as ex:
        futs = [ex.submit(run_job, j, vdirs, seed, tier, rundir, pid, exclude) for j in jobs]
        for f in futs:
            results.append(f.result())
    # merge
    evaluations = skipped = shrink = 0
    hashes = set()
    hist, extra, samples, notes, inconclusive, per_mode = {}, {}, [], [], [], {}
    fail_files = []
    exhaustive_modes = []
    for r in results:
        st = None
        if os.path.exists(r['out']):
            try:
                st = json.load(open(r['out']))
            except Exception:
                st = None
        if st:
            evaluations += st['evaluations']
            skipped += st['skipped']
            shrink += st['shrink_evals']
            for k, v in st['hist'].items():
                hist[k] = hist.get(k, 0) + v
            for k, v in st['extra'].items():
                extra[k] = extra.get(k, 0) + v if k.startswith('sum_') else max(extra.get(k, 0), v)
            if st.get('exhaustive'):
                exhaustive_modes.append(r['job']['mode'])
            for s in st['samples']:
                if len(samples) < 10 and (len(samples) < 2 or r['job'].get('sub', 0) == 0) and not any(x['case'] == s for x in samples):
                    samples.append(dict(mode=r['job']['mode'], case=s))
            notes += st['notes']
            fail_files += st['fail_files']
            pm = per_mode.setdefault(r['job']['mode'] + ('' if r['job']['variant'] == 'asan' else '@' + r['job']['variant']), dict(evaluations=0, nontrivial=0, processes=0))
            pm['evaluations'] += st['evaluations']
            pm['nontrivial'] += st['nontrivial']
            pm['processes'] += 1
            hp = r['out'] + '.hashes'
            if os.path.exists(hp):
                b = open(hp, 'rb').read()
                hashes.update(struct.unpack('<%dQ' % (len(b) // 8), b))
        for line in r['stdout'].splitlines():
            m = re.match(r'FAIL property=\S+ case=(\S+)', line)
            if m and m.group(1) not in fail_files:
                fail_files.append(m.group(1))
        if r['timed_out']:
            inconclusive.append('%s: time budget hit (inconclusive, not a violation)' % r['label'])
            inflight = r['out'] + '.inflight'
            if pid == 'C18' and os.path.exists(inflight) and os.path.getsize(inflight) > 0:
                # for the concurrency property a hang is a candidate deadlock: replay decides
                name = os.path.join(FAILDIR, '%s-hang-%s.case' % (pid, hashlib.sha1(open(inflight, 'rb').read()).hexdigest()[:16]))
                with open(name, 'w') as o:
                    o.write('# property=%s mode=%s\n# process did not finish within its time budget while executing this case (candidate deadlock)\n' % (pid, r['job']['mode']))
                    o.write(open(inflight).read())
                fail_files.append(name)
        elif r['rc'] not in (0, 1) and not any(True for l in r['stdout'].splitlines() if l.startswith('FAIL ')):
            # crashed without a captured case: take the in-flight file
            inflight = r['out'] + '.inflight'
            if os.path.exists(inflight) and os.path.getsize(inflight) > 0:
                name = os.path.join(FAILDIR, '%s-crash-%s.case' % (pid, hashlib.sha1(open(inflight, 'rb').read()).hexdigest()[:16]))
                with open(name, 'w') as o:
                    o.write('# property=%s mode=%s\n# process exited with code %d (see %s)\n' % (pid, r['job']['mode'], r['rc'], r['label'] + '.log'))
                    o.write(open(inflight).read())
                fail_files.append(name)
            else:
                inconclusive.append('%s: exited with code %d without an in-flight case' % (r['label'], r['rc']))
                notes.append('%s: abnormal exit %d' % (r['label'], r['rc']))
    # confirm failures by replay x3
    violations, unreproduced, known_hits = [], [], []
    cand = []
    for ff in fail_files:
        if ff not in cand and os.path.exists(ff) and os.path.getsize(ff) > 0:
            cand.append(ff)
    if len(cand) > 12:
        notes.append('%d failing case files; the first 12 are replayed' % len(cand))
        cand = cand[:12]
    with ThreadPoolExecutor(max_workers=JOBS) as ex:
        for ff, nfail in zip(cand, ex.map(lambda f: replay_case(pid, f, vdirs), cand)):
            if nfail == 3 or nfail < 0:
                violations.append(ff)
            elif nfail > 0:
                violations.append(ff)
                notes.append('%s reproduced %d/3 times' % (ff, nfail))
            else:
                unreproduced.append(ff)
    # regression tier: saved (shrunk) failing inputs of repaired defects and of seeded changes
    regress = sorted(glob.glob(os.path.join(VERIF, 'regress', pid + '-*.case')))
    regress_failed = []
    with ThreadPoolExecutor(max_workers=JOBS) as ex:
        for path, nfail in zip(regress, ex.map(lambda p: replay_case(pid, p, vdirs, times=1), regress)):
            if nfail:
                regress_failed.append(path)
                if path not in violations:
                    violations.append(path)
    # known findings: probe each open one
    for k in open_known:
        probe = os.path.join(VERIF, k['probe'])
        nfail = replay_case(pid, probe, vdirs, times=1)
        if nfail:
            print('KNOWN-FINDING: property=%s %s' % (pid, k['what']))
            known_hits.append(k['id'])
        else:
            notes.append('open known finding %s no longer reproduces' % k['id'])
    for k in known:
        if k.get('status') == 'fixed':
            notes.append('fixed: property=%s %s %s' % (pid, k.get('commit', '?'), k['what']))
    abnormal = [n for n in notes if 'abnormal exit' in n]
    cov = dict(evaluations=evaluations, distinct_nontrivial=len(hashes), rule=RULES.get(pid, ''), samples=samples,
               exhaustive=bool(exhaustive_modes), exhaustive_modes=sorted(set(exhaustive_modes)), class_histogram=hist,
               subspace_sizes=extra, per_mode=per_mode, excluded_known=skipped, shrink_evaluations=shrink,
               inconclusive=inconclusive, unreproduced=unreproduced, notes=notes[:40],
               known_findings_reproduced=known_hits, processes=len(results),
               regression_replays=len(regress), regression_failed=[os.path.basename(x) for x in regress_failed],
               sanitizers='tsan' if any(j['variant'] == 'tsan' for j in jobs) else 'address,undefined(-shift-base),leak',
               engine='rapidcheck + enumerated sweeps, seeds = VERIF_SEED*1000+i')
    assumptions = ASSUMPTIONS.get(pid, []) + COMMON_ASSUMPTIONS
    write_evidence(pid, tier, seed, LEVELS.get(pid, 'exploration'), cov, time.time() - t0, len(violations), assumptions)
    for v in violations:
        print('VIOLATION property=%s replay=%s' % (pid, v))
    if violations:
        return 1
    if abnormal:
        print('INTERNAL-ERROR', abnormal[:3])
        return 2
    print('OK property=%s tier=%s evaluations=%d distinct_nontrivial=%d wall=%.1fs' % (pid, tier, evaluations, len(hashes), time.time() - t0))
    return 0


COMMON_ASSUMPTIONS = [
    'library built from the working tree with clang -O1, ASan+UBSan (shift-base off), layout mirroring src/Makefile.am; harness ABI guarded by abi_probe.c',
    'syslog interposed by the harness (no /dev/log in the sandbox)',
    'ISA-L adapters run against the clean-room refisal/libisal.so.2, not Intel ISA-L',
]
ASSUMPTIONS = {}


def main_replay(pid, path):
    txt = open(path).read()
    m = re.search(r'mode=(\S+)', txt)
    mode = m.group(1) if m else ''
    harness, variant = MODE_HARNESS.get(mode, (None, None))
    if harness is None:
        print('cannot determine harness for mode', mode)
        return 2
    try:
        vdirs = prepare(pid, 'quick', {variant}, {(harness, variant)})
    except BuildError as e:
        print('BUILD-ERROR', str(e)[:4000])
        return 2
    exe = os.path.join(vdirs[variant], harness)
    r = subprocess.run([exe, '--prop', pid, '--replay', path], env=run_env(vdirs[variant], mode), cwd=VERIF)
    if r.returncode != 0:
        print('VIOLATION property=%s replay=%s' % (pid, path))
        return 1
    return 0


def all_harnesses():
    hs = set()
    for f in glob.glob(os.path.join(VERIF, 'harness', 'h_*.cpp')):
        hs.add((os.path.basename(f)[:-4], 'asan'))
    for f in glob.glob(os.path.join(VERIF, 'harness', 't_*.cpp')):
        hs.add((os.path.basename(f)[:-4], 'tsan'))
    for f in glob.glob(os.path.join(VERIF, 'harness', 'fuzz_*.cpp')):
        hs.add((os.path.basename(f)[:-4], 'fuzz'))
    return sorted(hs)


def main_setup():
    t0 = time.time()
    os.makedirs(CACHE, exist_ok=True)
    try:
        with ThreadPoolExecutor(max_workers=JOBS) as ex:
            list(ex.map(lambda hv: harness_object(hv[0], hv[1]), all_harnesses()))
        for v in ('asan',):
            build_variant(REPO, v)
    except BuildError as e:
        print('BUILD-ERROR', str(e)[:6000])
        return 2
    print('setup done in %.1fs' % (time.time() - t0))
    return 0


def main():
    a = sys.argv[1:]
    if not a:
        print(__doc__)
        return 2
    if a[0] == '--setup':
        return main_setup()
    if a[0] == '--baseline-off':
        r = subprocess.run('make -C %s -j%d >/dev/null 2>&1 && make -C %s test' % (shlex.quote(REPO), JOBS, shlex.quote(REPO)), shell=True)
        return r.returncode
    pid = a[0]
    tier = os.environ.get('VERIF_TIER', 'quick')
    replay = None
    i = 1
    while i < len(a):
        if a[i] == '--tier':
            tier = a[i + 1]; i += 2
        elif a[i] == '--replay':
            replay = a[i + 1]; i += 2
        else:
            i += 1
    if tier not in ('quick', 'thorough'):
        tier = 'quick'
    try:
        seed = int(os.environ.get('VERIF_SEED', '1'))
    except ValueError:
        seed = 1
    seed = abs(seed) % 1000000 or 1
    if replay:
        return main_replay(pid, replay)
    return main_check(pid, tier, seed)


if __name__ == '__main__':
    sys.exit(main())
