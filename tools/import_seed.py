#!/usr/bin/env python3
"""Confirms a seeded change produced by a sub-agent in its scratch worktree /tmp/seed-<PID>[suffix]/seed_out and, if it
holds up, copies it to /verif/seeded/<name>/ with meta.json.  Confirmation (all in the scratch worktree):
  with the change   : make && make test -> exit 0 and 292 'ok' lines; demo exits non-zero
  without the change: (git apply -R patch.diff; note: git stash is shared between worktrees, never use it here) make; demo exits 0
Usage: tools/import_seed.py <PID> [worktree] [name]"""
import sys, os, subprocess, json, shutil, time
VERIF = os.path.dirname(os.path.dirname(os.path.abspath(__file__)))


def sh(cmd, cwd=None, timeout=1800):
    try:
        r = subprocess.run(cmd, shell=True, cwd=cwd, stdout=subprocess.PIPE, stderr=subprocess.STDOUT, text=True, timeout=timeout)
        return r.returncode, r.stdout
    except subprocess.TimeoutExpired as e:
        return 124, (e.stdout or b'').decode(errors='replace') if isinstance(e.stdout, bytes) else (e.stdout or '')


def main():
    pid = sys.argv[1]
    wt = sys.argv[2] if len(sys.argv) > 2 else '/tmp/seed-' + pid
    name = sys.argv[3] if len(sys.argv) > 3 else pid + '-s1'
    out = os.path.join(wt, 'seed_out')
    for f in ('patch.diff', 'demo.c', 'run_demo.sh', 'notes.md'):
        if not os.path.exists(os.path.join(out, f)):
            print('missing', f); return 2
    ran = []
    def step(desc, cmd, cwd=wt, timeout=1800):
        rc, o = sh(cmd, cwd, timeout)
        ran.append(dict(step=desc, cmd=cmd, rc=rc, tail=o[-300:]))
        print('%-55s rc=%d' % (desc, rc)); sys.stdout.flush()
        return rc, o
    # state: change applied (the agent leaves it so); make sure the diff matches patch.diff
    rc, cur = sh('git diff -- src include', wt)
    if cur.strip() != open(os.path.join(out, 'patch.diff')).read().strip():
        print('NOTE: working tree diff differs from patch.diff; re-applying patch.diff on a clean tree')
        sh('git checkout -- src include', wt)
        rc, o = sh('git apply seed_out/patch.diff', wt)
        if rc: print('patch does not apply', o); return 2
    rc1, _ = step('with change: make', 'make -j8 >/dev/null 2>&1')
    rc2, o2 = step('with change: make test', 'make test 2>&1 | tee /tmp/seedtest.log | grep -c "^ok"; exit ${PIPESTATUS[0]}'.replace('sh', 'sh'), timeout=1800)
    rc2b, o2b = sh('make test > /tmp/seedtest_%s.log 2>&1; echo rc=$?; grep -c " ok$" /tmp/seedtest_%s.log' % (pid, pid), wt)
    ran.append(dict(step='with change: make test (exit status, ok lines)', rc=rc2b, tail=o2b))
    print('   suite:', o2b.strip().replace('\n', ' '))
    suite_ok = 'rc=0' in o2b
    rc3, o3 = step('with change: demo', 'sh seed_out/run_demo.sh %s' % wt, timeout=900)
    step('remove change (git apply -R)', 'git apply -R seed_out/patch.diff')
    step('without change: make', 'make -j8 >/dev/null 2>&1')
    rc4, o4 = step('without change: demo', 'sh seed_out/run_demo.sh %s' % wt, timeout=900)
    step('restore change (git apply)', 'git apply seed_out/patch.diff')
    step('with change: rebuild', 'make -j8 >/dev/null 2>&1')
    ok = rc1 == 0 and suite_ok and rc3 != 0 and rc4 == 0
    print('CONFIRMED' if ok else 'NOT CONFIRMED', dict(make=rc1, suite_ok=suite_ok, demo_with=rc3, demo_without=rc4))
    if not ok:
        print(o3[-500:]); print(o4[-500:])
        return 1
    dst = os.path.join(VERIF, 'seeded', name)
    shutil.rmtree(dst, ignore_errors=True)
    os.makedirs(dst)
    for f in os.listdir(out):
        p = os.path.join(out, f)
        if os.path.isfile(p) and os.path.getsize(p) < 400000 and not f.endswith(('.o', '.so')) and os.access(p, os.R_OK):
            if f in ('demo', 'a.out') or (os.access(p, os.X_OK) and not f.endswith('.sh')):
                continue
            shutil.copy(p, dst)
    notes = open(os.path.join(out, 'notes.md')).read()
    meta = dict(id=name, property=pid, breaks=notes.strip().split('\n\n')[0][:600],
                needs_to_manifest='see notes.md', confirmed=dict(date=time.strftime('%Y-%m-%d'), steps=ran),
                base_commit=subprocess.run(['git', '-C', wt, 'rev-parse', 'HEAD'], stdout=subprocess.PIPE, text=True).stdout.strip(),
                run_checks=[pid], detected_by=[], missed_by=[])
    json.dump(meta, open(os.path.join(dst, 'meta.json'), 'w'), indent=1)
    print('imported to', dst)
    return 0


if __name__ == '__main__':
    sys.exit(main())
