#!/usr/bin/env python3
"""Regenerates MANIFEST.json from the table below (kept in one place so it stays valid)."""
import json, os, subprocess
VERIF = os.path.dirname(os.path.dirname(os.path.abspath(__file__)))

def hook_commits():
    try:
        out = subprocess.run(['git', '-C', '/repo', 'log', '--format=%H %s'], stdout=subprocess.PIPE, text=True).stdout
        return [l.split()[0] for l in out.splitlines() if l.split(' ', 1)[1].startswith('verif-hooks:')]
    except Exception:
        return []

CHECKS = {
 'C01': dict(level='exploration', design='5/C01', engine='rapidcheck+sweep',
   technique='property-based testing (rapidcheck) with round-trip oracle; exhaustive erasure-set sweeps for flat-XOR',
   text='Generated and enumerated encode/decode round trips against the original bytes under ASan/UBSan; exhaustive in the erasure set for all 38 flat-XOR tables, sampled in shape x length x content elsewhere. Evidence about the cases explored, not a proof.',
   note='Trusts: harness ABI declarations (guarded by abi_probe.c), clean-room ISA-L stand-in for the isa_l_* backends, clang sanitizer runtime.'),
 'C02': dict(level='exploration', design='5/C02', engine='rapidcheck+sweep',
   technique='property-based testing with exact-or-error oracle and GF rank classification; exhaustive subset sweeps for small codes',
   text='Every presented sub-multiset must decode/reconstruct exactly or fail with a negative code; all 2^n subsets for small codes and the whole flat-XOR band hd..m+1 are enumerated, the rest sampled; memory safety observed by ASan with exact-size inputs.',
   note='Recoverability classification by independent GF(2)/GF(2^8)/GF(2^16) rank; only "exact or error" is demanded outside tolerance.'),
 'C03': dict(level='exploration', design='5/C03', engine='rapidcheck+sweep',
   technique='property-based testing: reconstruct output compared bytewise with the fragment encode produced; enumerated flat-XOR sweeps',
   text='Reconstructed fragments compared byte for byte (header, both checksums, payload) with encode\'s own output; out-of-range destinations must be refused with the output untouched.',
   note='Oracle is encode\'s own fragment (itself pinned to an independent serializer by C07).'),
 'C04': dict(level='exploration', design='5/C04', engine='sweep+rapidcheck',
   technique='exhaustive enumeration of all 496 generator matrices against a closed form over independent GF(2^16) arithmetic; rank test of row subsets; generated parity differential',
   text='All 496 (k,m) generator matrices compared entry by entry with L_j(r)/L_j(k); k-subsets of the library matrix rows inverted independently (exhaustive to n=12 quick / 16 thorough, sampled above); generated data encoded through the public API and compared with the closed-form parity on host-order 16-bit words.',
   note='Trusts the independent shift-and-xor GF(2^16) model (poly 0x1100b) in ref/ref.hpp; matrix obtained through the exported make_systematic_matrix.'),
 'C05': dict(level='exploration', design='5/C05', engine='sweep',
   technique='exhaustive enumeration over the 38 flat-XOR tables: golden-equation differential, GF(2) rank distance, all erasure sets below hd decoded and reconstructed, two build flavours',
   text='Exhaustive for the finite parts: tables vs a golden copy of the equations in both directions, minimum distance by rank over all erasure sets up to hd, every erasure set below hd decoded and reconstructed exactly, every unsupported triple in the box refused; payload sizes and content sampled.',
   note='Golden equations were extracted once from 1.6.4 and independently verified (consistent, distance exactly hd); SSE2 and portable builds both exercised.'),
 'C06': dict(level='exploration', design='5/C06', engine='sweep+rapidcheck',
   technique='exhaustive enumeration of (reconstruct, exclude) pairs with a validity + sufficiency oracle (rank/span, rebuild from only the returned fragments)',
   text='All in-tolerance (R,X) pairs for every flat-XOR table and for small RS/ISA-L shapes, generated pairs above and beyond tolerance; the returned list must be terminated, in range, distinct, disjoint and actually sufficient (rebuild from it alone), or the call must fail.',
   note='Sufficiency for XOR decided by GF(2) elimination over the golden equations plus XOR of the real payloads; for RS/ISA by calling reconstruct with only the returned fragments.'),
 'C07': dict(level='exploration', design='5/C07', engine='rapidcheck+sweep+compile-time probe',
   technique='differential testing of every fragment byte against an independent serializer; compile-time layout assertions',
   text='Every byte of every fragment from encode compared with an independently written serializer (literal offsets, own GF and CRC code) over generated configurations and one case per shape per back end; sizeof/offsetof of the public header asserted at compile time on every run.',
   note='Library version field taken from liberasurecode_get_version() (must be >= 1.2.0); back-end version constants are frozen in the reference.'),
 'C08': dict(level='exploration', design='5/C08', engine='rapidcheck+sweep',
   technique='property-based testing of the three size queries against arithmetic and against encode output; dense length sweep',
   text='Size queries compared with arithmetic and with what encode produced, densely for all lengths up to 4 alignment units on 40+ configurations and sampled up to 2^20; unknown descriptors refused.',
   note='Word size per back end: rs_vand 2, flat_xor 4, null 4, isa_l 1 byte.'),
 'C09': dict(level='exploration', design='5/C09', engine='rapidcheck+sweep',
   technique='mutation-based property testing of header acceptance against an independent predicate (all 640 single-bit flips enumerated)',
   text='Mutated and re-sealed headers fed to header validation, the metadata query, decode and reconstruct; verdicts compared with an independent accept predicate (magic either order, version gate, standard or historical CRC-32); inputs must stay byte-identical.',
   note='Safety filter: an accepted header whose geometry fields were changed is not fed to APIs that legitimately trust those fields.'),
 'C10': dict(level='exploration', design='5/C10', engine='rapidcheck+sweep',
   technique='property-based testing with independent bit-serial CRC-32 models (standard and historical) and exhaustive single-bit payload flips for short payloads',
   text='Written payload/metadata checksums compared with independent CRC models under five values of the legacy-CRC switch; mismatch reporting and validation verdicts compared after generated corruptions; exported historical CRC compared with the model on generated buffers.',
   note='Historical CRC modelled from its description (sign-extending state), pinned by frozen vectors.'),
 'C11': dict(level='exploration', design='5/C11', engine='rapidcheck',
   technique='metamorphic property testing: field-wise byte-swapped twin must read back identically',
   text='For generated fragments the opposite-endian twin (fields swapped in place, CRC recomputed and stored swapped) must yield the same metadata field by field, the same verdicts and the same payload-mismatch detection.',
   note='Fields that read the same both ways are overwritten with asymmetric values in half of the cases so a dropped swap is visible.'),
 'C12': dict(level='exploration', design='5/C12', engine='rapidcheck',
   technique='property-based testing of validation verdicts against an independent validity predicate over re-sealed single-field edits',
   text='Validator x producer x fragment x re-sealed edit; is_invalid_fragment and verify_stripe_metadata compared with predicates written from the statement; every freshly encoded fragment must validate.',
   note='Stored mismatch flag with a non-CRC checksum type is not generated (the statement does not decide it).'),
 'C13': dict(level='exploration', design='5/C13', engine='sweep+rapidcheck',
   technique='enumerated argument grid and configuration box with return-code, sanitizer and LeakSanitizer oracles',
   text='Every entry point x argument position x bad value (single, NULL-combined, with dead descriptor) must return the documented failure and leave nothing allocated; every configuration in the box is either refused or survives a complete encode/decode/reconstruct/query/destroy cycle without sanitizer reports.',
   note='encode_cleanup/decode_cleanup with NULL buffers on a valid descriptor are allowed to return 0 (the suite pins that); a time budget hit is inconclusive.'),
 'C14': dict(level='exploration', design='5/C14', engine='rapidcheck (history interpreter)+bounded exhaustive',
   technique='model-based testing of create/use/destroy histories against a set model with a behavioural registry scan after every step; bounded-exhaustive sequences',
   text='Generated histories (incl. counter presets next to INT_MAX) and all sequences over a 12-symbol alphabet to depth 5/6; after every step the library registry, probed through size queries on every descriptor ever seen and its neighbours, must equal the model and every live instance must round-trip.',
   note='Counter wrap reached by presetting the exported next_backend_desc; registry observed only through public calls.'),
 'C15': dict(level='exploration', design='5/C15', engine='rapidcheck (history interpreter)',
   technique='model-based histories with inputs on read-only pages flush against guard pages; encode output compared with a pure reference function',
   text='Any write to an input or read outside it faults (PROT_READ / PROT_NONE pages, start- and end-flush, aligned and unaligned); inputs compared with private copies afterwards; every encode output in every history, instance and thread equals the independent serializer, hence is history independent.',
   note='Page-granular: with 16-byte aligned buffers whose length is not a multiple of 16 an over-read of <16 bytes is only seen in the unaligned placements.'),
 'C16': dict(level='exploration', design='5/C16', engine='rapidcheck (history interpreter)+sweep',
   technique='stateful random API histories under AddressSanitizer with a LeakSanitizer check after each history',
   text='Histories up to 300 steps mixing successful calls + cleanup with every documented failure path; ASan reports double free / use after free at the faulting step, LSan must report nothing after all instances are destroyed; plus a cleanup-pair check for every shape.',
   note='OOM-only error paths are not injected.'),
 'C17': dict(level='fault_enumeration', design='5/C17', engine='fault enumeration+rapidcheck',
   technique='fault injection through the exported back-end operation tables: every single fault position enumerated, random fault sets generated',
   text='For a scripted workload on five back ends every call position of init/encode/decode/reconstruct/fragments_needed is made to fail in three ways, one run each (exhaustive for single faults); random workloads with random fault sets on top. Public rc<0, no cleanup owed (LSan), retry exact, registry usable, plugin reference returned.',
   note='Faults are return values of the back end operations (incl. work-then-fail); faults inside libc (malloc) are not injected.'),
 'C18': dict(level='exploration', design='5/C18', engine='TSan stress + controlled scheduler (guarded hooks)',
   technique='generated multi-threaded workloads under ThreadSanitizer; enumerated and random schedules at instrumented yield points under AddressSanitizer',
   text='Tier 1: 2..16 threads with own and shared instances under TSan - any data race on the paths exercised is reported independent of timing. Tier 2: worker threads run one at a time and switch only at the guarded yield points (registry traversal/insert/remove, descriptor allocation, GF table init/deinit, lock try/unlock); all schedules with <=2 preemptions for fixed 2-thread workloads, random schedules for 2-3 threads. Evidence about the schedules explored, never absence of races.',
   note='Tier 2 sees interleavings at hook granularity only; tier 1 only races on exercised paths. Hooks: guard LIBERASURECODE_VERIF, inert unless a callback is installed.'),
 'C19': dict(level='exploration', design='5/C19', engine='rapidcheck+sweep+fault injection',
   technique='property-based and exhaustive small-shape testing of the ISA-L adapters against a clean-room primitive library, with injected inversion failures',
   text='Both adapters over every erasure set for n<=8/12 and generated cases to n=32, two table encodings of the stand-in, searched singular first-k sets for the non-MDS Vandermonde shapes, injected gf_invert_matrix failures (error, no leak, retry exact), fragments_needed with the C06 oracle.',
   note='Relative to one clean-room model of the documented ISA-L primitives (refisal); Intel SIMD kernels are out of reach offline.'),
 'C20': dict(level='exploration', design='5/C20', engine='rapidcheck',
   technique='property-based testing with fault-injected fragments and a validity-aware exact-or-error oracle',
   text='Stripes with damaged members (payload bit flips, re-sealed foreign header fields, unsealed header damage) decoded with force=1; result must be the original when the valid fragments suffice within tolerance, an error when they cannot determine the data, never other bytes.',
   note='Validity of a fragment decided by an independent predicate written from C12\'s statement.'),
}
NOT_APPLICABLE = {}

def main():
    checks = []
    for pid in sorted(CHECKS):
        c = CHECKS[pid]
        checks.append(dict(
            property_id=pid,
            quick_cmd='python3 check.py %s --tier quick' % pid,
            thorough_cmd='python3 check.py %s --tier thorough' % pid,
            evidence_file='/verif/evidence/%s.json' % pid,
            replay_cmd_template='python3 check.py %s --replay {path}' % pid,
            engine=c['engine'],
            level_claimed=dict(category=c['level'], text=c['text'], design_ref='DESIGN.md section ' + c['design']),
            level_note=c['note'],
            technique=c['technique'],
        ))
    props = [json.loads(l)['id'] for l in open(os.path.join(VERIF, 'properties.jsonl'))]
    na = []
    for p in props:
        if p not in CHECKS:
            na.append(dict(property_id=p, reason=NOT_APPLICABLE.get(p, 'check not built yet in this revision of /verif (planned in DESIGN.md); not claimed')))
    m = dict(
        version=1,
        setup_cmd='python3 check.py --setup',
        hooks=dict(guard='LIBERASURECODE_VERIF',
                   enable='check.py compiles /repo/src with clang -DLIBERASURECODE_VERIF into /verif/.cache/<variant>-<hash>/ on every run (never the autotools artefacts)',
                   baseline_off_cmd='python3 check.py --baseline-off',
                   source_commits=hook_commits(), add_only=True),
        engines=[
            dict(name='rapidcheck harnesses', path='/verif/harness', serves_properties=sorted(CHECKS), kind_free_text='rapidcheck properties + deterministic sweeps sharing one run(case) oracle per property; ASan/UBSan/LSan'),
            dict(name='reference models', path='/verif/ref', serves_properties=sorted(CHECKS), kind_free_text='independent GF(2^16)/GF(2^8), CRC-32 (std+legacy), golden XOR equations, serializer, validity predicates'),
            dict(name='refisal', path='/verif/refisal', serves_properties=['C01', 'C02', 'C03', 'C06', 'C19', 'C20'], kind_free_text='clean-room libisal.so.2'),
        ],
        checks=checks,
        not_applicable=na,
        notes='Driver: /verif/check.py. Known findings: /verif/known_findings.json. Seeds derive from VERIF_SEED.',
    )
    json.dump(m, open(os.path.join(VERIF, 'MANIFEST.json'), 'w'), indent=1)
    print('MANIFEST.json written: %d checks, %d not claimed' % (len(checks), len(na)))

if __name__ == '__main__':
    main()
