#!/usr/bin/env python3
"""Regenerates MANIFEST.json from the table below (kept in one place so it stays valid)."""
import json, os, subprocess
VERIF = os.path.dirname(os.path.dirname(os.path.abspath(__file__)))

def hook_commits():
    try:
        out = subprocess.run(['git', '-C', '/repo', 'log', '--format=%H %s'], stdout=subprocess.PIPE, text=True).stdout
        return [l.split()[0] for l in out.splitlines() if l.split(' ', 1)[1].startswith('verif-hooks:')]
    except Exception:
        return []

CHECKS = {
 'C01': dict(level='exploration', design='5/C01', engine='rapidcheck+sweep',
   technique='property-based testing (rapidcheck) with round-trip oracle; exhaustive erasure-set sweeps for flat-XOR',
   text='Generated and enumerated encode/decode round trips against the original bytes under ASan/UBSan; exhaustive in the erasure set for all 38 flat-XOR tables, sampled in shape x length x content elsewhere. Evidence about the cases explored, not a proof.',
   note='Trusts: harness ABI declarations (guarded by abi_probe.c), clean-room ISA-L stand-in for the isa_l_* backends, clang sanitizer runtime.'),
 'C02': dict(level='exploration', design='5/C02', engine='rapidcheck+sweep',
   technique='property-based testing with exact-or-error oracle and GF rank classification; exhaustive subset sweeps for small codes',
   text='Every presented sub-multiset must decode/reconstruct exactly or fail with a negative code; all 2^n subsets for small codes and the whole flat-XOR band hd..m+1 are enumerated, the rest sampled; memory safety observed by ASan with exact-size inputs.',
   note='Recoverability classification by independent GF(2)/GF(2^8)/GF(2^16) rank; only "exact or error" is demanded outside tolerance.'),
 'C03': dict(level='exploration', design='5/C03', engine='rapidcheck+sweep',
   technique='property-based testing: reconstruct output compared bytewise with the fragment encode produced; enumerated flat-XOR sweeps',
   text='Reconstructed fragments compared byte for byte (header, both checksums, payload) with encode\'s own output; out-of-range destinations must be refused with the output untouched.',
   note='Oracle is encode\'s own fragment (itself pinned to an independent serializer by C07).'),
 'C20': dict(level='exploration', design='5/C20', engine='rapidcheck',
   technique='property-based testing with fault-injected fragments and a validity-aware exact-or-error oracle',
   text='Stripes with damaged members (payload bit flips, re-sealed foreign header fields, unsealed header damage) decoded with force=1; result must be the original when the valid fragments suffice within tolerance, an error when they cannot determine the data, never other bytes.',
   note='Validity of a fragment decided by an independent predicate written from C12\'s statement.'),
}
NOT_APPLICABLE = {}

def main():
    checks = []
    for pid in sorted(CHECKS):
        c = CHECKS[pid]
        checks.append(dict(
            property_id=pid,
            quick_cmd='python3 check.py %s --tier quick' % pid,
            thorough_cmd='python3 check.py %s --tier thorough' % pid,
            evidence_file='/verif/evidence/%s.json' % pid,
            replay_cmd_template='python3 check.py %s --replay {path}' % pid,
            engine=c['engine'],
            level_claimed=dict(category=c['level'], text=c['text'], design_ref='DESIGN.md section ' + c['design']),
            level_note=c['note'],
            technique=c['technique'],
        ))
    props = [json.loads(l)['id'] for l in open(os.path.join(VERIF, 'properties.jsonl'))]
    na = []
    for p in props:
        if p not in CHECKS:
            na.append(dict(property_id=p, reason=NOT_APPLICABLE.get(p, 'check not built yet in this revision of /verif (planned in DESIGN.md); not claimed')))
    m = dict(
        version=1,
        setup_cmd='python3 check.py --setup',
        hooks=dict(guard='LIBERASURECODE_VERIF',
                   enable='check.py compiles /repo/src with clang -DLIBERASURECODE_VERIF into /verif/.cache/<variant>-<hash>/ on every run (never the autotools artefacts)',
                   baseline_off_cmd='python3 check.py --baseline-off',
                   source_commits=hook_commits(), add_only=True),
        engines=[
            dict(name='rapidcheck harnesses', path='/verif/harness', serves_properties=sorted(CHECKS), kind_free_text='rapidcheck properties + deterministic sweeps sharing one run(case) oracle per property; ASan/UBSan/LSan'),
            dict(name='reference models', path='/verif/ref', serves_properties=sorted(CHECKS), kind_free_text='independent GF(2^16)/GF(2^8), CRC-32 (std+legacy), golden XOR equations, serializer, validity predicates'),
            dict(name='refisal', path='/verif/refisal', serves_properties=['C01', 'C02', 'C03', 'C06', 'C19', 'C20'], kind_free_text='clean-room libisal.so.2'),
        ],
        checks=checks,
        not_applicable=na,
        notes='Driver: /verif/check.py. Known findings: /verif/known_findings.json. Seeds derive from VERIF_SEED.',
    )
    json.dump(m, open(os.path.join(VERIF, 'MANIFEST.json'), 'w'), indent=1)
    print('MANIFEST.json written: %d checks, %d not claimed' % (len(checks), len(na)))

if __name__ == '__main__':
    main()
