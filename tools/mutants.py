#!/usr/bin/env python3
"""Sensitivity runner: applies deliberate breakages (own list below + /verif/seeded/*/patch.diff) to a
scratch worktree of /repo, runs the named checks with VERIF_REPO pointing at it, reports killed/survived.
Usage: tools/mutants.py [name-substring ...] [--seeded] [--tier quick]"""
import sys, os, subprocess, json, shutil, time, glob
VERIF = os.path.dirname(os.path.dirname(os.path.abspath(__file__)))

# (name, [properties expected to catch it], file, old, new)
M = [
 ('c01_region_multiply_skips_last_word', ['C01', 'C04', 'C07'], 'src/builtin/rs_vand/liberasurecode_rs_vand.c',
  "    for (i = 0; i < adj_blocksize; i++) {\n      _to_buf[i] = _to_buf[i] ^ (uint16_t)rs_galois_mult(_from_buf[i], mult);",
  "    for (i = 0; i < adj_blocksize - (adj_blocksize > 300); i++) {\n      _to_buf[i] = _to_buf[i] ^ (uint16_t)rs_galois_mult(_from_buf[i], mult);"),
 ('c02_partition_admits_m_plus_1', ['C02'], 'src/erasurecode_preprocessing.c',
  "return (num_missing > m) ? -EINSUFFFRAGS : 0;", "return (num_missing > m + 1) ? -EINSUFFFRAGS : 0;"),
 ('c02_xor_ge_hd_returns_0_again', ['C02', 'C05'], 'src/builtin/xor_codes/xor_hd_code.c',
  "      ret = -1;\n      break;\n  }\n\n  return ret;", "      break;\n  }\n\n  return ret;"),
 ('c03_parity_row_wrong_inverse_row', ['C03', 'C01'], 'src/builtin/rs_vand/liberasurecode_rs_vand.c',
  "inverse_decoding_matrix[(missing[i] * k) + j]);", "inverse_decoding_matrix[(((missing[i] + (k > 5)) % k) * k) + j]);"),
 ('c04_prim_poly', ['C04', 'C07'], 'src/builtin/rs_vand/rs_galois.c', "#define PRIM_POLY 0x1100b", "#define PRIM_POLY 0x1002d"),
 ('c04_vandermonde_points_shifted', ['C04', 'C07'], 'src/builtin/rs_vand/liberasurecode_rs_vand.c',
  "      acc = rs_galois_mult(acc, i);", "      acc = rs_galois_mult(acc, i + (cols > 9));"),
 ('c05_data_table_bit', ['C05', 'C06'], 'include/xor_codes/xor_hd_code_defs.h',
  "unsigned int g_10_5_3_hd_code_data_bms[] = { 5, 9,", "unsigned int g_10_5_3_hd_code_data_bms[] = { 7, 9,"),
 ('c05_parity_table_bit', ['C05', 'C07'], 'include/xor_codes/xor_hd_code_defs.h',
  "unsigned int g_14_6_4_hd_code_parity_bms[] = { 5447, 5496,", "unsigned int g_14_6_4_hd_code_parity_bms[] = { 5447, 5497,"),
 ('c05_xor_tail_dropped', ['C05', 'C01', 'C07'], 'src/builtin/xor_codes/xor_code.c',
  "  for (i=fast_blocksize; i < blocksize; i++)\n  {\n    buf2[i] ^= buf1[i];", "  for (i=fast_blocksize; i < blocksize - 1; i++)\n  {\n    buf2[i] ^= buf1[i];"),
 ('c06_rs_exclude_ignored', ['C06'], 'src/backends/rs_vand/liberasurecode_rs_vand.c',
  "uint64_t missing_bm = convert_list_to_bitmap(missing_idxs) | exclude_bm;", "uint64_t missing_bm = convert_list_to_bitmap(missing_idxs) | (exclude_bm & 0xffff);"),
 ('c07_metadata_crc_58', ['C07', 'C09'], 'src/erasurecode_postprocessing.c',
  "        header->metadata_chksum = crc32(0, (unsigned char *) &header->meta,\n                                        sizeof(fragment_metadata_t));",
  "        header->metadata_chksum = crc32(0, (unsigned char *) &header->meta,\n                                        sizeof(fragment_metadata_t) - (idx == 31));"),
 ('c08_fragment_size_off_for_large', ['C08'], 'src/erasurecode.c',
  "    int size = blocksize + metadata_size;\n\n    return size;", "    int size = blocksize + metadata_size + (data_len > 600000 && (data_len % 7) == 3);\n\n    return size;"),
 ('c09_version_gate_le', ['C09'], 'src/erasurecode.c', "    if (libec_version < _VERSION(1,2,0))", "    if (libec_version <= _VERSION(1,2,0))"),
 ('c09_crc_three_bytes', ['C09'], 'src/erasurecode.c', "    if (metadata_chksum == csum) {\n        return 0;", "    if ((metadata_chksum & 0xffffff) == (csum & 0xffffff)) {\n        return 0;"),
 ('c10_mismatch_only_std', ['C10'], 'src/erasurecode.c', "                if (stored_chksum != computed_chksum) {\n                    fragment_metadata->chksum_mismatch = 1;",
  "                if (stored_chksum != computed_chksum && (fragment_size & 1)) {\n                    fragment_metadata->chksum_mismatch = 1;"),
 ('c10_legacy_crc_no_sign_ext', ['C10'], 'src/utils/chksum/crc32.c', "((((crc >> 8) & 0x00FFFFFF) ^ 0x00800000) - 0x00800000)", "((crc >> 8) & 0x00FFFFFF)"),
 ('c11_size_not_swapped', ['C11'], 'src/erasurecode.c', "            fragment_metadata->size = bswap_32(fragment_metadata->size);\n", ""),
 ('c12_backend_id_dropped', ['C12', 'C20'], 'src/erasurecode.c', "    if (md->backend_id != be->common.id) {\n        return 1;\n    }\n", ""),
 ('c13_needed_null_check_removed', ['C13'], 'src/erasurecode.c',
  "    if (NULL == fragments_to_exclude) {\n        log_error(\"Unable to determine list of fragments needed, pointer to list of fragments to exclude is NULL.\");\n        ret = -EINVALIDPARAMS;\n        goto out_error;\n    }\n", ""),
 ('c14_alloc_desc_no_skip', ['C14'], 'src/erasurecode.c', "        if (!backend_instance_get_by_desc_locked(next_backend_desc))\n            return next_backend_desc;", "        return next_backend_desc;"),
 ('c14_gf_tables_freed_at_count_1', ['C14', 'C16'], 'src/builtin/rs_vand/rs_galois.c', "  } else if (init_counter > 0) {", "  } else if (init_counter > 1) {"),
 ('c15_decode_writes_input_header', ['C15', 'C01', 'C02'], 'src/erasurecode_preprocessing.c',
  "       if (((missing_bm & (1 << i)) == 0) && orig_data_size < 0) {\n            orig_data_size = get_orig_data_size(data[i]);",
  "       if (((missing_bm & (1 << i)) == 0) && orig_data_size < 0) {\n            ((fragment_header_t *)data[i])->meta.chksum_mismatch = 0;\n            orig_data_size = get_orig_data_size(data[i]);"),
 ('c16_realloc_bm_parity_lost', ['C16', 'C01'], 'src/erasurecode.c',
  "        for (i = 0; i < m; i++) {\n            if (realloc_bm & (1 << (i + k))) {\n                free(parity[i]);\n            }\n        }\n    }\n\n    free(data);\n    free(parity);\n    free(missing_idxs);\n    free(data_segments);\n    free(parity_segments);\n    free(valid_fragments);",
  "        for (i = 0; i < m - (m > 2); i++) {\n            if (realloc_bm & (1 << (i + k))) {\n                free(parity[i]);\n            }\n        }\n    }\n\n    free(data);\n    free(parity);\n    free(missing_idxs);\n    free(data_segments);\n    free(parity_segments);\n    free(valid_fragments);"),
 ('c17_decode_failure_returns_early', ['C17'], 'src/erasurecode.c',
  "    if (ret < 0) {\n        log_error(\"Encountered error in backend decode function!\");\n        goto out;\n    }", "    if (ret < 0) {\n        log_error(\"Encountered error in backend decode function!\");\n        return ret;\n    }"),
 ('c17_encode_failure_swallowed', ['C17'], 'src/erasurecode.c',
  "    ret = instance->common.ops->encode(instance->desc.backend_desc,\n                                       *encoded_data, *encoded_parity, blocksize);\n    if (ret < 0) {",
  "    ret = instance->common.ops->encode(instance->desc.backend_desc,\n                                       *encoded_data, *encoded_parity, blocksize);\n    if (ret < -1) {"),
 ('c18_unregister_without_lock', ['C18'], 'src/erasurecode.c',
  "    rc = rwlock_wrlock(&active_instances_rwlock);\n    if (rc == 0) {\n        SLIST_REMOVE(&active_instances, instance, ec_backend, link);\n    }  else {\n        goto exit;\n    }\n    rwlock_unlock(&active_instances_rwlock);",
  "    SLIST_REMOVE(&active_instances, instance, ec_backend, link);"),
 ('c18_desc_set_after_unlock', ['C18'], 'src/erasurecode.c',
  "        instance->idesc = desc;\n        LIBEC_VERIF_YIELD(LIBEC_VP_REG_DESC_SET);\n    } else {\n        goto exit;\n    }\n\nregister_out:\n    rwlock_unlock(&active_instances_rwlock);",
  "    } else {\n        goto exit;\n    }\n\nregister_out:\n    rwlock_unlock(&active_instances_rwlock);\n    instance->idesc = desc;"),
 ('c18_gf_mutex_removed', ['C18'], 'src/builtin/rs_vand/rs_galois.c',
  "void rs_galois_init_tables(void)\n{\n  pthread_mutex_lock(&init_mutex);", "void rs_galois_init_tables(void)\n{\n  if (0) pthread_mutex_lock(&init_mutex);"),
 ('c19_inverse_rows_wrong_index', ['C19', 'C01'], 'src/backends/isa-l/isa_l_common.c',
  "                    inverse_rows[(l * k) + d_idx_avail] ^= encode_matrix[(i * k) + j];", "                    inverse_rows[(l * k) + d_idx_avail] ^= encode_matrix[(i * k) + (j + (k > 6 && j == 5)) % k];"),
 ('c20_fast_path_before_filter', ['C20'], 'src/erasurecode.c',
  "    if (force_metadata_checks) {\n        int num_valid_fragments = 0;", "    if (force_metadata_checks && num_fragments > k + 1) {\n        int num_valid_fragments = 0;"),
]


def sh(cmd, **kw):
    return subprocess.run(cmd, stdout=subprocess.PIPE, stderr=subprocess.STDOUT, text=True, **kw)


def run_one(name, props, apply, tier):
    wt = '/tmp/mut-' + name
    sh(['git', '-C', '/repo', 'worktree', 'remove', '--force', wt])
    shutil.rmtree(wt, ignore_errors=True)
    r = sh(['git', '-C', '/repo', 'worktree', 'add', '-f', '--detach', wt, 'HEAD'])
    if r.returncode:
        return dict(name=name, error=r.stdout[-300:])
    res = {}
    try:
        err = apply(wt)
        if err:
            return dict(name=name, error=err)
        env = dict(os.environ, VERIF_REPO=wt, VERIF_SEED=os.environ.get('VERIF_SEED', '1'))
        for p in props:
            t0 = time.time()
            rr = sh(['python3', os.path.join(VERIF, 'check.py'), p, '--tier', tier], env=env, cwd=VERIF)
            viol = [l for l in rr.stdout.splitlines() if l.startswith('VIOLATION')]
            first_msg = ''
            if viol:
                path = viol[0].split('replay=')[1]
                try:
                    first_msg = open(path).read().splitlines()[1][:160]
                except Exception:
                    pass
            res[p] = dict(rc=rr.returncode, killed=bool(viol), wall=round(time.time() - t0, 1), msg=first_msg, tail='' if viol else rr.stdout[-200:])
    finally:
        sh(['git', '-C', '/repo', 'worktree', 'remove', '--force', wt])
        shutil.rmtree(wt, ignore_errors=True)
    return dict(name=name, results=res)


def main():
    args = [a for a in sys.argv[1:] if not a.startswith('--')]
    tier = 'quick'
    if '--tier' in sys.argv:
        tier = sys.argv[sys.argv.index('--tier') + 1]
        args = [a for a in args if a != tier]
    todo = []
    if '--seeded' in sys.argv:
        for d in sorted(glob.glob(os.path.join(VERIF, 'seeded', '*'))):
            meta = json.load(open(os.path.join(d, 'meta.json')))
            name = os.path.basename(d)
            if args and not any(a in name for a in args):
                continue
            patch = os.path.join(d, 'patch.diff')
            def apply(wt, patch=patch):
                r = sh(['git', '-C', wt, 'apply', patch])
                return r.stdout if r.returncode else None
            checks = meta.get('run_checks') or [meta['property']]
            if '--own-only' in sys.argv:
                checks = [meta['property']]
            todo.append((name, checks, apply))
    else:
        for (name, props, f, old, new) in M:
            if args and not any(a in name for a in args):
                continue
            def apply(wt, f=f, old=old, new=new):
                p = os.path.join(wt, f)
                s = open(p).read()
                if s.count(old) != 1:
                    return 'pattern count %d in %s' % (s.count(old), f)
                open(p, 'w').write(s.replace(old, new))
                return None
            todo.append((name, props, apply))
    out = []
    for name, props, apply in todo:
        r = run_one(name, props, apply, tier)
        out.append(r)
        if 'error' in r:
            print('%-45s ERROR %s' % (name, r['error']))
        else:
            print('%-45s %s' % (name, '  '.join('%s:%s(%.0fs)' % (p, 'KILLED' if v['killed'] else ('rc%d-SURVIVED' % v['rc']), v['wall']) for p, v in r['results'].items())))
        sys.stdout.flush()
    json.dump(out, open(os.path.join(VERIF, '.run', 'mutants_last.json'), 'w'), indent=1)
    if '--seeded' in sys.argv:
        for r in out:
            mp = os.path.join(VERIF, 'seeded', r['name'], 'meta.json')
            if 'results' in r and os.path.exists(mp):
                m = json.load(open(mp))
                det = set(m.get('detected_by', [])); mis = set(m.get('missed_by', []))
                for p, v in r['results'].items():
                    (det if v['killed'] else mis).add(p)
                    (mis if v['killed'] else det).discard(p)
                m['detected_by'] = sorted(det); m['missed_by'] = sorted(mis)
                m.setdefault('what_i_ran', 'tools/mutants.py --seeded %s: git worktree of /repo HEAD + git apply patch.diff, VERIF_REPO=<worktree> python3 check.py <ID> --tier %s' % (r['name'], tier))
                m['first_violation'] = {p: v['msg'] for p, v in r['results'].items() if v['killed']}
                json.dump(m, open(mp, 'w'), indent=1)


if __name__ == '__main__':
    main()
