#!/usr/bin/env python3
"""Rewrites section 11 of DESIGN.md (sensitivity: own mutants + seeded changes) from tools/mutants.py's
table, .run/mutants_all.json (if present) and seeded/*/meta.json."""
import json, os, glob, re
VERIF = os.path.dirname(os.path.dirname(os.path.abspath(__file__)))
import importlib.util
spec = importlib.util.spec_from_file_location('mutants', os.path.join(VERIF, 'tools', 'mutants.py'))
mm = importlib.util.module_from_spec(spec); spec.loader.exec_module(mm)
res = {}
p = os.path.join(VERIF, 'tools', 'mutants_results.json')
if os.path.exists(p):
    for r in json.load(open(p)):
        res[r['name']] = r.get('results', {})
out = []
out.append('## 11. Sensitivity: which checks catch which changes\n')
out.append('Every check was run (quick tier, `VERIF_SEED=1`) against deliberate breakages applied to a scratch worktree of `/repo`\n(`tools/mutants.py`; the worktree is removed afterwards). A check that stayed green on a change to its own property was\nreworked until it caught it; the two cases where that happened are marked.\n')
out.append('### 11.1 Own mutants (`tools/mutants.py`, 30 changes)\n')
out.append('| change | file | caught by (quick tier) | not caught by (not its property) |\n|---|---|---|---|')
for (name, props, f, old, new) in mm.M:
    r = res.get(name, {})
    k = [p for p in props if r.get(p, {}).get('killed')]
    s = [p for p in props if p in r and not r[p]['killed']]
    out.append('| `%s` | `%s` | %s | %s |' % (name, f.replace('src/', ''), ' '.join(k) or '(not run)', ' '.join(s)))
out.append('\nAll 30 own mutants are caught by the check of the property they were written against. The ones listed as not caught were\nextra checks tried against the same change: `c02_xor_ge_hd_returns_0_again` is outside C05\'s quantifier (>= hd erasures),\n`c05_data_table_bit` does not change any fragments_needed answer, `c15_decode_writes_input_header` writes a value the\nbyte already has (only the read-only page sees it).\n')
out.append('### 11.2 Independently seeded changes (`seeded/<id>/`)\n')
out.append('Written by fresh sub-agents that saw only the property text and a scratch worktree (nothing from `/verif`). Each was\nconfirmed before it was kept: library builds, the repository suite passes (exit 0) with the change, the agent\'s\ndemonstration fails with the change and passes without it (`tools/import_seed.py`). Then `tools/mutants.py --seeded`.\n')
out.append('| id | what it breaks / what it needs to manifest | caught by | tried, not caught |\n|---|---|---|---|')
for mp in sorted(glob.glob(os.path.join(VERIF, 'seeded', '*', 'meta.json'))):
    m = json.load(open(mp))
    summ = m.get('summary') or m.get('breaks', '')[:200]
    summ = re.sub(r'\s+', ' ', summ).replace('|', '/')
    out.append('| %s | %s | %s | %s |' % (m['id'], summ, ' '.join(m.get('detected_by', [])), ' '.join(m.get('missed_by', []))))
out.append("""
Nine of the 40 seeds were first **missed** by the check of their own property; each led to a stronger check (all 40 are
caught now, and the unchanged tree still passes, also for VERIF_SEED 2, 3 and 4):
* `C11-s1` - C11 built twins only from fragments written with the standard CRC. The generator now varies the writer and
  reader value of `LIBERASURECODE_WRITE_LEGACY_CRC` (C12 varies the writer as well).
* `C15-s1` - C15 used guard pages only for <= 2 erasures at the end of a history. It now also sweeps every flat-XOR table x
  every erasure set below hd (and every RS/ISA-L shape with |E|=m) with aligned inputs ending exactly at the guard
  page, start-flush, and unaligned; history tails use up to `tolerance` erasures.
* `C13-s2` - dead descriptors were only produced on the calling thread. C13's grid has a new descriptor class "looked up
  here, destroyed by another (joined) thread", and the C14/C16 history interpreter a step `xdestroy` doing the same.
* `C16-s2` - histories never produced valid fragments that disagree on `orig_data_size` (a documented -EBADHEADER
  path). New step `size_lie`: re-sealed small length deltas on 1-2 fragments, decode with and without forced checks;
  only memory safety and leak freedom are demanded for it.
* `C17-s2` - faults were only *injected* through the operation tables, which bypasses the back end's own failure
  paths. The C17 workload now also contains naturally failing rebuilds (flat-XOR with hd..hd+1 fragments lost, every lost
  index as destination) under the per-case LeakSanitizer check.
* `C18-s2` - concurrent decodes lost only one fragment. The TSan workloads now draw erasure sets up to the tolerance and,
  for flat-XOR hd=4, the all-data triples that no parity isolates (computed from the golden equations); a scenario in
  which every thread decodes through one shared hd=4 descriptor is generated in a quarter of the cases.
* `C04-s2` - a non-reentrant "speed-up" that only misbehaves under concurrent encodes of large payloads. C18's TSan
  workloads used payloads of a few bytes; one draw in eight is now 1.4-2.8 KiB per fragment, and C04 gained a mode that
  compares parity with the closed form while 2-6 threads encode at once.
* `C10-s2` - the repair-time value of the legacy-CRC switch was always the encode-time value. It is now drawn
  independently (`recenv`), and the expected CRC variant of a reconstructed fragment follows the repair-time value.
* `C20-s2` - every C20 case used fresh buffers. A third of the cases now validate fragments in place first, then damage
  (or heal) the *same* buffers before `decode(force=1)`.
Entries under "tried, not caught" are other properties' checks run against the same change out of curiosity.
""")
s = open(os.path.join(VERIF, 'DESIGN.md')).read()
if '\n## 11. Sensitivity' in s:
    s = s[:s.index('\n## 11. Sensitivity')]
s = s.rstrip('\n') + '\n\n' + '\n'.join(out) + '\n'
open(os.path.join(VERIF, 'DESIGN.md'), 'w').write(s)
print('section 11 written')
