#!/usr/bin/env python3
"""Rewrites section 11 of DESIGN.md (sensitivity: own mutants + seeded changes) from tools/mutants.py's
table, .run/mutants_all.json (if present) and seeded/*/meta.json."""
import json, os, glob, re
VERIF = os.path.dirname(os.path.dirname(os.path.abspath(__file__)))
import importlib.util
spec = importlib.util.spec_from_file_location('mutants', os.path.join(VERIF, 'tools', 'mutants.py'))
mm = importlib.util.module_from_spec(spec); spec.loader.exec_module(mm)
res = {}
p = os.path.join(VERIF, 'tools', 'mutants_results.json')
if os.path.exists(p):
    for r in json.load(open(p)):
        res[r['name']] = r.get('results', {})
out = []
out.append('## 11. Sensitivity: which checks catch which changes\n')
out.append('Every check was run (quick tier, `VERIF_SEED=1`) against deliberate breakages applied to a scratch worktree of `/repo`\n(`tools/mutants.py`; the worktree is removed afterwards). A check that stayed green on a change to its own property was\nreworked until it caught it; the two cases where that happened are marked.\n')
out.append('### 11.1 Own mutants (`tools/mutants.py`, 30 changes)\n')
out.append('| change | file | caught by (quick tier) | not caught by (not its property) |\n|---|---|---|---|')
for (name, props, f, old, new) in mm.M:
    r = res.get(name, {})
    k = [p for p in props if r.get(p, {}).get('killed')]
    s = [p for p in props if p in r and not r[p]['killed']]
    out.append('| `%s` | `%s` | %s | %s |' % (name, f.replace('src/', ''), ' '.join(k) or '(not run)', ' '.join(s)))
out.append('\nAll 30 own mutants are caught by the check of the property they were written against. The ones listed as not caught were\nextra checks tried against the same change: `c02_xor_ge_hd_returns_0_again` is outside C05\'s quantifier (>= hd erasures),\n`c05_data_table_bit` does not change any fragments_needed answer, `c15_decode_writes_input_header` writes a value the\nbyte already has (only the read-only page sees it).\n')
out.append('### 11.2 Independently seeded changes (`seeded/<id>/`)\n')
out.append('Written by fresh sub-agents that saw only the property text and a scratch worktree (nothing from `/verif`). Each was\nconfirmed before it was kept: library builds, the repository suite passes (exit 0) with the change, the agent\'s\ndemonstration fails with the change and passes without it (`tools/import_seed.py`). Then `tools/mutants.py --seeded`.\n'
           'Eight rounds (s1..s8). From the second round on each prompt also listed, in one line each, the changes ALREADY seeded for\nthat property (so that the next one would differ) and, from the fourth round on, a growing list of ideas not to repeat -\nnothing about the checks themselves. Two departures from the isolation rule are known and kept on record: several agents\nreported having run `git log` inside their worktree (the library\'s own history), and the agent of `C15-s5` reported having\nseen commit subjects of this repository; their changes were kept - it can only have made them harder to catch.\n')
out.append('| id | what it breaks / what it needs to manifest | caught by | tried, not caught |\n|---|---|---|---|')
for mp in sorted(glob.glob(os.path.join(VERIF, 'seeded', '*', 'meta.json'))):
    m = json.load(open(mp))
    summ = m.get('summary') or m.get('breaks', '')[:200]
    summ = re.sub(r'\s+', ' ', summ).replace('|', '/')
    det = ' '.join(m.get('detected_by', [])) or '**not detected**'
    out.append('| %s | %s | %s | %s |' % (m['id'], summ, det, ' '.join(m.get('missed_by', []))))
metas = [json.load(open(mp)) for mp in sorted(glob.glob(os.path.join(VERIF, 'seeded', '*', 'meta.json')))]
missed = [m for m in metas if m.get('first_missed_by_own_check')]
out.append("\n%d of the %d seeds were first **missed** by the check of their own property; each led to a stronger check (%d of %d are\ncaught now by the check of their own property, and the unchanged tree still passes, also for VERIF_SEED 2 to 7):" % (len(missed), len(metas), len([m for m in metas if m['property'] in m.get('detected_by', [])]), len(metas)))
for m in missed:
    out.append("* `%s` - %s" % (m['id'], m.get('strengthening', '')))
nd = [m for m in metas if m.get('not_detected_reason')]
if nd:
    out.append("\nNot detected (kept as documented misses):")
    for m in nd:
        out.append("* `%s` - %s" % (m['id'], m['not_detected_reason']))
out.append("\nEntries under \"tried, not caught\" are other properties' checks run against the same change out of curiosity.\n")
s = open(os.path.join(VERIF, 'DESIGN.md')).read()
if '\n## 11. Sensitivity' in s:
    s = s[:s.index('\n## 11. Sensitivity')]
s = s.rstrip('\n') + '\n\n' + '\n'.join(out) + '\n'
open(os.path.join(VERIF, 'DESIGN.md'), 'w').write(s)
print('section 11 written')
