/* Clean-room stand-in for libisal.so.2: the erasure-code primitives liberasurecode's ISA-L
 * adapters resolve with dlsym, written from ISA-L's public API documentation (erasure_code.h):
 *   gf_mul, gf_inv, gf_gen_rs_matrix, gf_gen_cauchy1_matrix, gf_invert_matrix,
 *   ec_init_tables (32 bytes per coefficient), ec_encode_data (overwrites destinations).
 * GF(2^8) with polynomial 0x11d.  Plus test knobs (refisal_*) reachable through dlsym.
 * Argument assertions make adapter misuse (NULL buffers, rows beyond the initialised tables)
 * visible. */
#include <stdlib.h>
#include <string.h>
#include <assert.h>

static int g_fail_invert_at = -1;     /* fail the n-th (0-based) call from now; -1 = never */
static int g_invert_calls = 0;
static int g_table_mode = 0;          /* 0: low/high nibble products, row-major; 1: same, xored with 0x5a mask;
                                         * 2: column-major entries, high nibble products first (another private layout) */
static long g_encode_calls = 0;

void refisal_fail_invert_at(int n) { __atomic_store_n(&g_fail_invert_at, n, __ATOMIC_RELAXED); __atomic_store_n(&g_invert_calls, 0, __ATOMIC_RELAXED); }
int refisal_invert_calls(void) { return __atomic_load_n(&g_invert_calls, __ATOMIC_RELAXED); }
void refisal_set_table_mode(int m) { __atomic_store_n(&g_table_mode, m, __ATOMIC_RELAXED); }
long refisal_encode_calls(void) { return __atomic_load_n(&g_encode_calls, __ATOMIC_RELAXED); }

unsigned char gf_mul(unsigned char a, unsigned char b)
{
    unsigned r = 0, aa = a, bb = b;
    while (bb) {
        if (bb & 1) r ^= aa;
        bb >>= 1;
        aa <<= 1;
        if (aa & 0x100) aa ^= 0x11d;
    }
    return (unsigned char)r;
}

unsigned char gf_inv(unsigned char a)
{
    /* a^254 */
    unsigned char r = 1, p = a;
    int e = 254;
    if (a == 0) return 0;
    while (e) { if (e & 1) r = gf_mul(r, p); p = gf_mul(p, p); e >>= 1; }
    return r;
}

void gf_gen_rs_matrix(unsigned char *a, int m, int k)
{
    int i, j;
    unsigned char p, gen = 1;
    assert(a);
    memset(a, 0, (size_t)k * m);
    for (i = 0; i < k; i++) a[k * i + i] = 1;
    for (i = k; i < m; i++) {
        p = 1;
        for (j = 0; j < k; j++) { a[k * i + j] = p; p = gf_mul(p, gen); }
        gen = gf_mul(gen, 2);
    }
}

void gf_gen_cauchy1_matrix(unsigned char *a, int m, int k)
{
    int i, j;
    unsigned char *p;
    assert(a);
    memset(a, 0, (size_t)k * m);
    for (i = 0; i < k; i++) a[k * i + i] = 1;
    p = &a[k * k];
    for (i = k; i < m; i++)
        for (j = 0; j < k; j++) *p++ = gf_inv((unsigned char)(i ^ j));
}

/* in_mat is clobbered, as with the real routine; returns -1 when singular */
int gf_invert_matrix(unsigned char *in_mat, unsigned char *out_mat, const int n)
{
    int i, j, k;
    unsigned char temp;
    assert(in_mat && out_mat && n > 0);
    {
        int fail_at = __atomic_load_n(&g_fail_invert_at, __ATOMIC_RELAXED);
        int call = __atomic_fetch_add(&g_invert_calls, 1, __ATOMIC_RELAXED);
        if (fail_at >= 0 && call == fail_at) { memset(out_mat, 0xEE, (size_t)n * n); return -1; }
    }
    memset(out_mat, 0, (size_t)n * n);
    for (i = 0; i < n; i++) out_mat[i * n + i] = 1;
    for (i = 0; i < n; i++) {
        if (in_mat[i * n + i] == 0) {
            for (j = i + 1; j < n; j++) if (in_mat[j * n + i]) break;
            if (j == n) return -1;
            for (k = 0; k < n; k++) {
                temp = in_mat[i * n + k]; in_mat[i * n + k] = in_mat[j * n + k]; in_mat[j * n + k] = temp;
                temp = out_mat[i * n + k]; out_mat[i * n + k] = out_mat[j * n + k]; out_mat[j * n + k] = temp;
            }
        }
        temp = gf_inv(in_mat[i * n + i]);
        for (j = 0; j < n; j++) { in_mat[i * n + j] = gf_mul(in_mat[i * n + j], temp); out_mat[i * n + j] = gf_mul(out_mat[i * n + j], temp); }
        for (j = 0; j < n; j++) {
            if (j == i) continue;
            temp = in_mat[j * n + i];
            for (k = 0; k < n; k++) { out_mat[j * n + k] ^= gf_mul(temp, out_mat[i * n + k]); in_mat[j * n + k] ^= gf_mul(temp, in_mat[i * n + k]); }
        }
    }
    return 0;
}

/* 32 bytes per coefficient: 16 products with the low nibble values, 16 with the high nibble values.
 * Table layout for (rows x k): entry for output row r and source j at ((r * k) + j) * 32. */
void ec_init_tables(int k, int rows, unsigned char *a, unsigned char *g_tbls)
{
    int i, j, t;
    assert(a && g_tbls && k > 0 && rows >= 0);
    for (i = 0; i < rows; i++)
        for (j = 0; j < k; j++) {
            unsigned char c = a[i * k + j];
            int mode = __atomic_load_n(&g_table_mode, __ATOMIC_RELAXED);
            unsigned char *tb = g_tbls + (mode == 2 ? (size_t)(j * rows + i) : (size_t)(i * k + j)) * 32;
            int lo_at = mode == 2 ? 16 : 0, hi_at = mode == 2 ? 0 : 16;
            for (t = 0; t < 16; t++) {
                tb[lo_at + t] = gf_mul(c, (unsigned char)t);
                tb[hi_at + t] = gf_mul(c, (unsigned char)(t << 4));
                if (mode == 1) { tb[t] ^= 0x5a; tb[16 + t] ^= 0x5a; }
            }
        }
}

void ec_encode_data(int len, int k, int rows, unsigned char *g_tbls, unsigned char **data, unsigned char **coding)
{
    int i, j, b;
    __atomic_fetch_add(&g_encode_calls, 1, __ATOMIC_RELAXED);
    assert(len >= 0 && k > 0 && rows >= 0);
    assert(g_tbls && data && (coding || rows == 0));
    for (i = 0; i < rows; i++) {
        assert(coding[i] || len == 0);
        if (len) memset(coding[i], 0, (size_t)len);
        for (j = 0; j < k; j++) {
            int mode = __atomic_load_n(&g_table_mode, __ATOMIC_RELAXED);
            const unsigned char *tb = g_tbls + (mode == 2 ? (size_t)(j * rows + i) : (size_t)(i * k + j)) * 32;
            unsigned char lo[16], hi[16];
            assert(data[j] || len == 0);
            for (b = 0; b < 16; b++) { lo[b] = tb[mode == 2 ? 16 + b : b]; hi[b] = tb[mode == 2 ? b : 16 + b]; if (mode == 1) { lo[b] ^= 0x5a; hi[b] ^= 0x5a; } }
            for (b = 0; b < len; b++) { unsigned char s = data[j][b]; coding[i][b] ^= lo[s & 15] ^ hi[s >> 4]; }
        }
    }
}
